(* Proofs/PyRoundTrip3.v — REPORT TARGET PORT GROUPS, the builder over the REGENERATED body (two nested `for` loops): for any number of
   groups and any number of ports per group, the eight bytes encode_dict makes of each group's fields followed by 00 00 + the two-byte
   RELATIVE TARGET PORT IDENTIFIER of each of its ports, in order, and RETURN DATA LENGTH := the number of bytes that follow. *)
From Coq Require Import String ZArith List Bool Lia.
From PS Require Import Base.Bytes Base.Result Model.Converter Model.Py Proofs.FacadeState Proofs.PyLemmas Proofs.PyParsers Proofs.PyRoundTrip Proofs.PyRoundTrip2 Gen.Tables Gen.PyFuncs.
Import ListNotations.
Set Default Timeout 120.
Open Scope string_scope.
Open Scope nat_scope.

Local Arguments py_slice : simpl never.
Local Arguments run : simpl never.
Local Arguments call_with : simpl never.
Local Arguments encode_pv : simpl never.
Local Arguments decode_bits : simpl never.
Local Arguments Z.add : simpl never.
Local Arguments Z.sub : simpl never.
Local Arguments Z.of_nat : simpl never.
Local Arguments Z.eqb : simpl never.
Local Arguments length : simpl never.
Local Arguments app : simpl never.
Local Arguments concat : simpl never.
Local Arguments zeros : simpl never.
Local Arguments int_to_ba_z : simpl never.
Local Arguments int_to_ba : simpl never.
Local Arguments store_slice : simpl never.
Local Arguments firstn : simpl never.
Local Arguments skipn : simpl never.

Ltac lk := repeat (rewrite lookup_set_same || rewrite lookup_set_other by (let H := fresh in intro H; discriminate H)).
Ltac step := rewrite exec_block_cons; cbn [exec exec_simple eval eval_list eval_opt]; lk.

Definition RTPGM := "scsi_cdb_report_target_port_groups.ReportTargetPortGroups.marshall_datain".
Notation PF_rtpgm := PF_scsi_cdb_report_target_port_groups_ReportTargetPortGroups_marshall_datain.
Lemma rtpgm_lookup : lookup RTPGM py_program = Some PF_rtpgm.
Proof. vm_compute. reflexivity. Qed.

(* one group: the dictionary of table fields, the RELATIVE TARGET PORT IDENTIFIERs of its ports, the 8 bytes encode_dict makes of the fields *)
Record tg_item := mkTgi { tgi_fields : list (string * value); tgi_ports : list N; tgi_enc : bytes }.
Definition tgi_port_dict (id : N) : pv := PDict [("relative_target_port_id", PInt (Z.of_N id))].
Definition tgi_dict (g : tg_item) : pv :=
  PDict (dict_of_decoded (tgi_fields g) ++ [("target_ports", PList (map tgi_port_dict (tgi_ports g)))])%list.
Definition tgi_port_bytes (id : N) : bytes := (zeros 2 ++ int_to_ba id 2)%list.
Definition tgi_bytes (g : tg_item) : bytes := (tgi_enc g ++ concat (map tgi_port_bytes (tgi_ports g)))%list.
Definition tgi_ok (g : tg_item) : Prop :=
  encode_dict (tgi_fields g) T_tpgd (zeros 8) = Ok (tgi_enc g) /\
  lookup "target_ports" (dict_of_decoded (tgi_fields g)) = None.

(* inner loop: the ports of one group appended to `result` *)
Definition tgm_inner (ids : list N) (pre : bytes) (items : list pv) (ρ : env) : Prop :=
  exists done rest, ids = (done ++ rest)%list /\ items = map tgi_port_dict rest /\
    lookup "result" ρ = Some (PBytes (pre ++ concat (map tgi_port_bytes done))%list).

Definition rtpgm_outer_body : list st := match nth 2 (fn_body PF_rtpgm) SPass with SFor _ _ b => b | _ => [] end.
Definition rtpgm_inner_body : list st := match nth 3 rtpgm_outer_body SPass with SFor _ _ b => b | _ => [] end.

Lemma tgm_inner_iter ids pre call again d ds ρ : tgm_inner ids pre (d :: ds) ρ ->
  exists ρ', exec_block all_tables call again rtpgm_inner_body (dict_set ρ "_tpd" d) = ONorm ρ' /\ tgm_inner ids pre ds ρ'.
Proof.
  intros (done & rest & Hsplit & Hds & Hres). destruct rest as [|id rest]; [discriminate|]. cbn [map] in Hds. injection Hds as -> ->.
  cbn [rtpgm_inner_body rtpgm_outer_body fn_body nth PF_rtpgm].
  step. cbn [bytearray_eval as_int]. change (Z.ltb 2 0) with false. change (Z.ltb 1048576 2) with false. cbn iota. change (Z.to_nat 2) with 2.
  rewrite Hres. cbn [bin_eval as_int].
  step. unfold tgi_port_dict at 1. cbn [index_eval lookup String.eqb Ascii.eqb Bool.eqb as_int bin_eval].
  rewrite exec_block_nil. eexists. split; [reflexivity|].
  exists (done ++ [id])%list, rest. split; [now rewrite <- app_assoc|]. split; [reflexivity|]. lk.
  rewrite map_app, concat_app. change (concat (map tgi_port_bytes [id])) with (tgi_port_bytes id ++ [])%list. rewrite app_nil_r.
  unfold tgi_port_bytes, int_to_ba_z. destruct (Z.leb_spec 0 (Z.of_N id)); [|lia]. change (Z.to_nat (Z.min (Z.max 2 0) 4096)) with 2.
  rewrite N2Z.id, <- !app_assoc. reflexivity.
Qed.

Definition rtpgm_inv (all : list tg_item) (pre : bytes) (items : list pv) (ρ : env) : Prop :=
  exists done rest, all = (done ++ rest)%list /\ items = map tgi_dict rest /\
    lookup "result" ρ = Some (PBytes (pre ++ concat (map tgi_bytes done))%list).

Lemma rtpgm_iter all pre call again d ds ρ : Forall tgi_ok all -> rtpgm_inv all pre (d :: ds) ρ ->
  exists ρ', exec_block all_tables call again rtpgm_outer_body (dict_set ρ "_tpgd" d) = ONorm ρ' /\ rtpgm_inv all pre ds ρ'.
Proof.
  intros Hall (done & rest & Hsplit & Hds & Hres). destruct rest as [|g rest]; [discriminate|]. cbn [map] in Hds. injection Hds as -> ->.
  assert (Hin : In g all) by (rewrite Hsplit; apply in_or_app; right; now left).
  rewrite Forall_forall in Hall. destruct (Hall _ Hin) as (Henc & Hfresh).
  cbn [rtpgm_outer_body fn_body nth PF_rtpgm].
  step. cbn [bytearray_eval as_int]. change (Z.ltb 8 0) with false. change (Z.ltb 1048576 8) with false. cbn iota. change (Z.to_nat 8) with 8.
  step. unfold tgi_dict at 1. rewrite (proj1 rtpg_tables). unfold with_var. lk.
  rewrite encode_pv_app_unknown by (vm_compute; reflexivity). rewrite encode_pv_of_decoded, Henc.
  step. rewrite Hres. cbn [bin_eval as_int].
  rewrite exec_block_cons, exec_for. cbn [eval]. lk. unfold tgi_dict at 1. cbn [index_eval]. rewrite (lookup_app_none _ _ _ Hfresh).
  cbn [lookup String.eqb Ascii.eqb Bool.eqb iter_items].
  match goal with |- context [for_iter _ ?c ?a "_tpd" ?body _ ?r0] =>
    destruct (for_consumes all_tables c a "_tpd" body (tgm_inner (tgi_ports g) ((pre ++ concat (map tgi_bytes done)) ++ tgi_enc g)%list)
                (fun d ds ρ H => tgm_inner_iter _ _ c a d ds ρ H)) with (ds := map tgi_port_dict (tgi_ports g)) (ρ := r0) as (ρ' & Hrun & Hinv) end.
  - exists [], (tgi_ports g). split; [reflexivity|]. split; [reflexivity|]. lk. change (concat (map tgi_port_bytes [])) with (@nil N). now rewrite app_nil_r.
  - cbn [rtpgm_inner_body rtpgm_outer_body fn_body nth PF_rtpgm] in Hrun. rewrite Hrun.
    destruct Hinv as (done' & rest' & Hsplit' & Hds' & Hres'). symmetry in Hds'. apply map_eq_nil in Hds'. subst rest'. rewrite app_nil_r in Hsplit'. subst done'.
    rewrite exec_block_nil. eexists. split; [reflexivity|].
    exists (done ++ [g])%list, rest. split; [now rewrite <- app_assoc|]. split; [reflexivity|]. rewrite Hres'.
    rewrite map_app, concat_app. change (concat (map tgi_bytes [g])) with (tgi_bytes g ++ [])%list. rewrite app_nil_r. unfold tgi_bytes.
    rewrite <- !app_assoc. reflexivity.
Qed.

(* the length-only header format (no FORMAT TYPE 1 in the dictionary) *)
Theorem rtpg_build_exact : forall (all : list tg_item) (ft : list (string * pv)) f, Forall tgi_ok all -> 1 <= f ->
  ft = [] \/ ft = [("format_type", PInt 0)] ->
  call_fun all_tables py_program f RTPGM [PDict (ft ++ [("target_port_group_descriptors", PList (map tgi_dict all))])%list]
  = Ok (PBytes (int_to_ba (N.of_nat (length (concat (map tgi_bytes all)))) 4 ++ concat (map tgi_bytes all))%list).
Proof.
  intros all ft f Hall Hf Hft. destruct f as [|f]; [lia|].
  unfold call_fun, call_with. rewrite rtpgm_lookup. cbn [fn_params bind_params PF_rtpgm].
  rewrite run_S, exec_if. cbn [eval truthy]. cbn [fn_body PF_rtpgm].
  step. cbn [bytearray_eval as_int]. change (Z.ltb 4 0) with false. change (Z.ltb 1048576 4) with false. cbn iota. change (Z.to_nat 4) with 4.
  rewrite exec_block_cons, exec_if. cbn [eval]. lk. cbn [lookup String.eqb Ascii.eqb Bool.eqb].
  assert (Hnx : forall ρ0 : env, lookup "result" ρ0 = Some (PBytes (zeros 4)) ->
            lookup "data" ρ0 = Some (PDict (ft ++ [("target_port_group_descriptors", PList (map tgi_dict all))])%list) ->
            exec_block all_tables (call_with py_program (run all_tables py_program f)) (run all_tables py_program f) (skipn 2 (fn_body PF_rtpgm)) ρ0 =
            ORet (PBytes (int_to_ba (N.of_nat (length (concat (map tgi_bytes all)))) 4 ++ concat (map tgi_bytes all))%list)).
  { intros ρ0 Hres0 Hdata0.
    match goal with |- context [skipn 2 ?l] => let l' := eval cbv [skipn fn_body PF_rtpgm] in (skipn 2 l) in change (skipn 2 l) with l' end.
    rewrite exec_block_cons, exec_for. cbn [eval]. rewrite Hdata0. cbn [index_eval].
    assert (Hlk : lookup "target_port_group_descriptors" (ft ++ [("target_port_group_descriptors", PList (map tgi_dict all))])%list
                  = Some (PList (map tgi_dict all))) by (destruct Hft as [-> | ->]; reflexivity).
    rewrite Hlk. cbn [iter_items].
    match goal with |- context [for_iter _ ?c ?a "_tpgd" ?body _ ?r0] =>
      destruct (for_consumes all_tables c a "_tpgd" body (rtpgm_inv all (zeros 4))
                  (fun d ds ρ H => rtpgm_iter all _ c a d ds ρ Hall H)) with (ds := map tgi_dict all) (ρ := r0) as (ρ' & Hrun & Hinv) end.
    - exists [], all. split; [reflexivity|]. split; [reflexivity|]. rewrite Hres0. change (concat (map tgi_bytes [])) with (@nil N). now rewrite app_nil_r.
    - cbn [rtpgm_outer_body fn_body nth PF_rtpgm] in Hrun. rewrite Hrun.
      destruct Hinv as (done & rest & Hsplit & Hds & Hres). symmetry in Hds. apply map_eq_nil in Hds. subst rest. rewrite app_nil_r in Hsplit. subst done.
      step. rewrite Hres. cbn [len_eval bin_eval as_int]. unfold with_var. rewrite Hres.
      set (body := concat (map tgi_bytes all)).
      assert (Hl : length (zeros 4 ++ body)%list = 4 + length body) by (rewrite app_length, zeros_length; reflexivity).
      rewrite Hl.
      assert (Hi : int_to_ba_z (Z.of_nat (4 + length body) - 4) 4 = int_to_ba (N.of_nat (length body)) 4).
      { unfold int_to_ba_z. destruct (Z.leb_spec 0 (Z.of_nat (4 + length body) - 4)); [|lia].
        change (Z.to_nat (Z.min (Z.max 4 0) 4096)) with 4. f_equal. lia. }
      cbn [as_int]. rewrite Hi.
      assert (Hs : forall x : bytes, length x = 4 -> store_slice (PBytes (zeros 4 ++ body)%list) None (Some (PInt 4)) (PBytes x)
                   = Ok (PBytes (x ++ body)%list)).
      { intros x Hx. unfold store_slice. cbn [opt_int as_int]. unfold clip. rewrite Hl. change (Z.ltb 4 0) with false. cbn iota.
        replace (Z.to_nat (Z.min 4 (Z.of_nat (4 + length body)))) with 4 by lia. change (Nat.max 0 4) with 4. rewrite firstn_O.
        rewrite skipn_app, skipn_all2 by (rewrite zeros_length; lia). rewrite zeros_length, Nat.sub_diag. reflexivity. }
      rewrite Hs by apply int_to_ba_length.
      step. lk. reflexivity. }
  destruct Hft as [-> | ->].
  - change ([] ++ [("target_port_group_descriptors", PList (map tgi_dict all))])%list with [("target_port_group_descriptors", PList (map tgi_dict all))] in *.
    cbn [in_eval lookup String.eqb Ascii.eqb Bool.eqb negb truthy]. rewrite exec_block_nil.
    match goal with |- context [exec_block _ _ _ ?blk ?ρ0] => change blk with (skipn 2 (fn_body PF_rtpgm)); rewrite (Hnx ρ0) end; [reflexivity|lk; reflexivity|lk; reflexivity].
  - change ([("format_type", PInt 0)] ++ [("target_port_group_descriptors", PList (map tgi_dict all))])%list
      with [("format_type", PInt 0); ("target_port_group_descriptors", PList (map tgi_dict all))] in *.
    cbn [in_eval lookup String.eqb Ascii.eqb Bool.eqb negb truthy index_eval cmp_eval py_eq as_int]. change (Z.eqb 0 1) with false. cbn [truthy]. rewrite exec_block_nil.
    match goal with |- context [exec_block _ _ _ ?blk ?ρ0] => change blk with (skipn 2 (fn_body PF_rtpgm)); rewrite (Hnx ρ0) end; [reflexivity|lk; reflexivity|lk; reflexivity].
Qed.

(* ------------------------------------------------------------------ dict -> bytes -> dict *)
From PS Require Import Proofs.Codec Proofs.Layout.

Lemma lookup_in_keys {A} (L : list (string * A)) k : In k (map fst L) -> exists f, lookup k L = Some f.
Proof.
  induction L as [|[k' f'] L IH]; [intros []|]. cbn [map fst lookup]. intros [->|H].
  - rewrite String.eqb_refl. eauto.
  - destruct (String.eqb k k'); eauto.
Qed.

(* a layout extended by further entries treats a dictionary whose keys it already knew in the same way *)
Lemma encode_dict_ext (dv : list (string * value)) (L X : layout) : (forall k, In k (map fst dv) -> In k (map fst L)) ->
  forall r, encode_dict dv (L ++ X)%list r = encode_dict dv L r.
Proof.
  induction dv as [|[k v] dv IH]; intros Hk r; [reflexivity|]. cbn [encode_dict].
  destruct (lookup_in_keys L k (Hk k (or_introl eq_refl))) as [f Hf]. rewrite (lookup_app_some _ X _ _ Hf), Hf.
  destruct (encode1 r f v); [|reflexivity]. apply IH. intros k' H. apply Hk. now right.
Qed.

Lemma valid_dict_ext n (dv : list (string * value)) (L X : layout) : (forall k, In k (map fst dv) -> In k (map fst L)) ->
  valid_dict n L dv = true -> valid_dict n (L ++ X)%list dv = true.
Proof.
  unfold valid_dict. intros Hk H. apply andb_prop in H as [Hn Hv]. rewrite Hn. cbn [andb].
  rewrite forallb_forall in *. intros [k v] Hin. specialize (Hv _ Hin). unfold val_okb in *. cbn [fst snd] in *.
  destruct (lookup_in_keys L k (Hk k (in_map fst _ _ Hin))) as [f Hf]. rewrite (lookup_app_some _ X _ _ Hf). now rewrite Hf in Hv.
Qed.

Lemma tpgd_wf8 : wf_layout 8 T_tpgd = true.
Proof. vm_compute. reflexivity. Qed.
Lemma tpgd_ext_wf8 : wf_layout 8 (T_tpgd ++ [("format_type", Mask 112 0)])%list = true.
Proof. vm_compute. reflexivity. Qed.

(* the bits of byte 0 that no field of the group descriptor covers stay zero: read as an extended header, what was built from a complete
   group dictionary has FORMAT TYPE 0 *)
Lemma tg_enc_reserved (dv : list (string * value)) (enc : bytes) :
  valid_dict 8 T_tpgd dv = true -> map fst dv = map fst T_tpgd -> encode_dict dv T_tpgd (zeros 8) = Ok enc ->
  lookup "format_type" (dict_of_decoded (decode_total enc T_ext)) = Some (PInt 0).
Proof.
  intros Hv Hk Henc.
  assert (Hkeys : forall k, In k (map fst dv) -> In k (map fst T_tpgd)) by (intros k H; now rewrite <- Hk).
  destruct (decode_encode_field 8 (T_tpgd ++ [("format_type", Mask 112 0)])%list dv (zeros 8) "format_type" (Mask 112 0) tpgd_ext_wf8
              (valid_dict_ext 8 dv T_tpgd _ Hkeys Hv) (zeros_length 8) (bytes_ok_zeros 8)
              ltac:(apply in_or_app; right; left; reflexivity)) as (r' & Hr' & _ & _ & _ & Hdec).
  rewrite (encode_dict_ext dv T_tpgd _ Hkeys), Henc in Hr'. injection Hr' as <-.
  assert (Hnot : ~ In "format_type" (map fst dv)).
  { rewrite Hk. vm_compute. intros H. repeat (destruct H as [H|H]; [discriminate H|]). exact H. }
  specialize (Hdec Hnot). change (decode1 (zeros 8) (Mask 112 0)) with (Ok (VI 0)) in Hdec.
  unfold decode_total, T_ext, T_scsi_cdb_report_target_port_groups__ReportTargetPortGroups___ext_hdr_bits.
  unfold decode_bits. rewrite Hdec. reflexivity.
Qed.

Lemma lookup_dict_of_decoded (dv : list (string * value)) k v : NoDup (map fst dv) -> In (k, v) dv ->
  lookup k (dict_of_decoded dv) = Some (pv_of_value v).
Proof.
  induction dv as [|[k' v'] dv IH]; [intros _ []|]. cbn [map fst]. intros Hnd [H|H].
  - injection H as -> ->. unfold dict_of_decoded. cbn [map lookup fst snd]. now rewrite String.eqb_refl.
  - inversion Hnd as [|? ? Hni Hnd']; subst. unfold dict_of_decoded. cbn [map lookup fst snd]. fold (dict_of_decoded dv).
    destruct (String.eqb_spec k k') as [->|_]; [exfalso; apply Hni; apply (in_map fst _ _ H)|]. now apply IH.
Qed.

Lemma dict_of_decoded_names (dv : list (string * value)) : map fst (dict_of_decoded dv) = map fst dv.
Proof. unfold dict_of_decoded. rewrite map_map. apply map_ext. intros [k v]. reflexivity. Qed.

Definition tg_group_dict (g : list (string * value) * list N) : pv :=
  PDict (dict_of_decoded (fst g) ++ [("target_ports", PList (map tgi_port_dict (snd g)))])%list.
Definition tg_group_ok (g : list (string * value) * list N) : Prop :=
  valid_dict 8 T_tpgd (fst g) = true /\ map fst (fst g) = map fst T_tpgd /\
  In ("target_port_count", VI (N.of_nat (length (snd g)))) (fst g) /\ Forall (fun id => (id < 65536)%N) (snd g).

(* build, then parse: every list of complete valid group dictionaries with their port lists comes back, whole and in order — any number of
   groups, any number of ports per group (TARGET PORT COUNT being what it must be), as long as the whole fits the 32-bit RETURN DATA LENGTH *)
Theorem rtpg_parse_inverts_build : forall (groups : list (list (string * value) * list N)) f,
  Forall tg_group_ok groups ->
  (Z.of_nat (fold_right (fun g acc => (8 + 4 * length (snd g) + acc)%nat) 0%nat groups) < 4294967296)%Z ->
  2 * fold_right (fun g acc => (8 + 4 * length (snd g) + acc)%nat) 0%nat groups + 4 <= f ->
  exists built,
    call_fun all_tables py_program f RTPGM [PDict [("format_type", PInt 0); ("target_port_group_descriptors", PList (map tg_group_dict groups))]] = Ok (PBytes built) /\
    call_fun all_tables py_program f RTPG [PBytes built] = Ok (PDict [("format_type", PInt 0); ("target_port_group_descriptors", PList (map tg_group_dict groups))]).
Proof.
  intros groups f Hall Hsmall Hf.
  assert (Henc : exists gs : list tg_item, map (fun g => (tgi_fields g, tgi_ports g)) gs = groups /\
            Forall (fun g => tgi_ok g /\ length (tgi_enc g) = 8 /\ decode_bits (tgi_enc g) T_tpgd = Ok (tgi_fields g) /\
                             lookup "target_port_count" (dict_of_decoded (tgi_fields g)) = Some (PInt (Z.of_nat (length (tgi_ports g)))) /\
                             lookup "format_type" (dict_of_decoded (decode_total (tgi_enc g) T_ext)) = Some (PInt 0) /\
                             Forall (fun id => (id < 65536)%N) (tgi_ports g)) gs).
  { clear Hsmall Hf. induction Hall as [|[dv ids] groups (Hv & Hk & Hc & Hids) _ (gs & Hm & Hg)]; [exists []; split; [reflexivity|constructor]|].
    cbn [fst snd] in *.
    destruct (valid_dict_parts _ _ _ Hv) as (Hnd & Hvals).
    destruct (encode_dict_bits 8 T_tpgd dv (zeros 8) (zeros_length 8) (bytes_ok_zeros 8) Hvals) as (enc & He & Hl & _).
    exists (mkTgi dv ids enc :: gs). split; [cbn [map tgi_fields tgi_ports]; now rewrite Hm|].
    constructor; [|exact Hg]. unfold tgi_ok. cbn [tgi_fields tgi_ports tgi_enc].
    pose proof (lookup_dict_of_decoded dv _ _ Hnd Hc) as Hlc. cbn [pv_of_value] in Hlc. rewrite nat_N_Z in Hlc.
    repeat split; try assumption.
    - apply lookup_not_in. rewrite dict_of_decoded_names, Hk. vm_compute. reflexivity.
    - exact (decode_bits_of_encoded 8 T_tpgd dv enc tpgd_wf8 Hv Hk He).
    - exact (tg_enc_reserved dv enc Hv Hk He). }
  destruct Henc as (gs & Hm & Hg).
  assert (Hdicts : map tg_group_dict groups = map tgi_dict gs) by (rewrite <- Hm, map_map; reflexivity).
  assert (Hok : Forall tgi_ok gs) by (eapply Forall_impl; [|exact Hg]; intros g H; apply H).
  pose proof (rtpg_build_exact gs [("format_type", PInt 0)] f Hok ltac:(lia) (or_intror eq_refl)) as Hbuild.
  change ([("format_type", PInt 0)] ++ [("target_port_group_descriptors", PList (map tgi_dict gs))])%list
    with [("format_type", PInt 0); ("target_port_group_descriptors", PList (map tgi_dict gs))] in Hbuild.
  rewrite Hdicts. eexists. split; [exact Hbuild|].
  set (tpgs := map (fun g => mkTpg (tgi_enc g) (map tgi_port_bytes (tgi_ports g))) gs).
  assert (Hbytes : map tgi_bytes gs = map tpg_bytes tpgs) by (unfold tpgs; rewrite map_map; reflexivity).
  assert (Hpd : Forall tpg_ok tpgs).
  { unfold tpgs. apply Forall_map. eapply Forall_impl; [|exact Hg]. intros g (_ & Hl & Hd & Hc & _ & _).
    unfold tpg_ok, tpg_fields. cbn [g_hdr g_ports]. split; [exact Hl|]. split.
    - apply Forall_map. apply Forall_forall. intros id _. unfold tgi_port_bytes. rewrite app_length, zeros_length, int_to_ba_length. reflexivity.
    - unfold decode_total. rewrite Hd, map_length. exact Hc. }
  assert (Hlen : length (concat (map tpg_bytes tpgs)) = fold_right (fun g acc => (8 + 4 * length (snd g) + acc)%nat) 0%nat groups).
  { rewrite <- Hm. unfold tpgs. clear -Hg. induction Hg as [|g gs (_ & Hl & _) _ IH]; [reflexivity|].
    cbn [map fold_right snd]. change (concat (?x :: ?l)) with (x ++ concat l)%list. rewrite app_length, IH. unfold tpg_bytes. cbn [g_hdr g_ports].
    rewrite app_length, Hl. f_equal. f_equal.
    rewrite (concat_len_const _ 4), map_length; [reflexivity|]. apply Forall_map, Forall_forall. intros id _.
    unfold tgi_port_bytes. rewrite app_length, zeros_length, int_to_ba_length. reflexivity. }
  rewrite Hbytes.
  pose proof (rtpg_exact_length_only (int_to_ba (N.of_nat (length (concat (map tpg_bytes tpgs)))) 4) tpgs [] f) as Hex.
  rewrite app_nil_r in Hex. rewrite Hex.
  - do 6 f_equal. unfold tpgs. rewrite map_map. apply map_ext_in. intros g Hin.
    rewrite Forall_forall in Hg. destruct (Hg _ Hin) as (_ & _ & Hd & _ & _ & Hids).
    unfold tpg_dict, tgi_dict, tpg_fields. cbn [g_hdr g_ports]. unfold decode_total. rewrite Hd. do 5 f_equal.
    rewrite map_map. apply map_ext_in. intros id Hid. rewrite Forall_forall in Hids. specialize (Hids _ Hid).
    unfold port_dict, tgi_port_dict, tgi_port_bytes. do 5 f_equal.
    rewrite skipn_app, skipn_all2 by (rewrite zeros_length; lia). rewrite zeros_length. change (2 - 2) with 0. rewrite skipn_O.
    change (@nil N ++ int_to_ba id 2)%list with (int_to_ba id 2).
    rewrite ba_to_int_to_ba. apply N.mod_small. exact Hids.
  - apply int_to_ba_length.
  - exact Hpd.
  - rewrite ba_to_int_to_ba. rewrite N.mod_small by (change (256 ^ N.of_nat 4)%N with 4294967296%N; lia). lia.
  - intros g0 gs0 Heq. unfold tpgs in Heq. destruct gs as [|g gs']; [discriminate|]. cbn [map] in Heq. injection Heq as <- _. cbn [g_hdr].
    inversion Hg as [|? ? (_ & _ & _ & _ & Hft & _) _]; subst. exact Hft.
  - lia.
Qed.

(* ------------------------------------------------------------------ the extended header format (FORMAT TYPE 1) *)
(* from the `for` over the groups to the end of the builder, whatever was appended to the four length bytes before *)
Lemma rtpgm_tail (all : list tg_item) (pre : bytes) (dd : list (string * pv)) f (ρ0 : env) :
  Forall tgi_ok all ->
  lookup "target_port_group_descriptors" dd = Some (PList (map tgi_dict all)) ->
  lookup "result" ρ0 = Some (PBytes (zeros 4 ++ pre)%list) -> lookup "data" ρ0 = Some (PDict dd) ->
  exec_block all_tables (call_with py_program (run all_tables py_program f)) (run all_tables py_program f) (skipn 2 (fn_body PF_rtpgm)) ρ0 =
  ORet (PBytes (int_to_ba (N.of_nat (length (pre ++ concat (map tgi_bytes all))%list)) 4 ++ pre ++ concat (map tgi_bytes all))%list).
Proof.
  intros Hall Hlk Hres0 Hdata0.
  match goal with |- context [skipn 2 ?l] => let l' := eval cbv [skipn fn_body PF_rtpgm] in (skipn 2 l) in change (skipn 2 l) with l' end.
  rewrite exec_block_cons, exec_for. cbn [eval]. rewrite Hdata0. cbn [index_eval]. rewrite Hlk. cbn [iter_items].
  match goal with |- context [for_iter _ ?c ?a "_tpgd" ?body _ ?r0] =>
    destruct (for_consumes all_tables c a "_tpgd" body (rtpgm_inv all (zeros 4 ++ pre)%list)
                (fun d ds ρ H => rtpgm_iter all _ c a d ds ρ Hall H)) with (ds := map tgi_dict all) (ρ := r0) as (ρ' & Hrun & Hinv) end.
  - exists [], all. split; [reflexivity|]. split; [reflexivity|]. rewrite Hres0. change (concat (map tgi_bytes [])) with (@nil N). now rewrite app_nil_r.
  - cbn [rtpgm_outer_body fn_body nth PF_rtpgm] in Hrun. rewrite Hrun.
    destruct Hinv as (done & rest & Hsplit & Hds & Hres). symmetry in Hds. apply map_eq_nil in Hds. subst rest. rewrite app_nil_r in Hsplit. subst done.
    rewrite <- app_assoc in Hres.
    step. rewrite Hres. cbn [len_eval bin_eval as_int]. unfold with_var. rewrite Hres.
    set (body := (pre ++ concat (map tgi_bytes all))%list).
    assert (Hl : length (zeros 4 ++ body)%list = 4 + length body) by (rewrite app_length, zeros_length; reflexivity).
    rewrite Hl.
    assert (Hi : int_to_ba_z (Z.of_nat (4 + length body) - 4) 4 = int_to_ba (N.of_nat (length body)) 4).
    { unfold int_to_ba_z. destruct (Z.leb_spec 0 (Z.of_nat (4 + length body) - 4)); [|lia].
      change (Z.to_nat (Z.min (Z.max 4 0) 4096)) with 4. f_equal. lia. }
    cbn [as_int]. rewrite Hi.
    assert (Hs : forall x : bytes, length x = 4 -> store_slice (PBytes (zeros 4 ++ body)%list) None (Some (PInt 4)) (PBytes x)
                 = Ok (PBytes (x ++ body)%list)).
    { intros x Hx. unfold store_slice. cbn [opt_int as_int]. unfold clip. rewrite Hl. change (Z.ltb 4 0) with false. cbn iota.
      replace (Z.to_nat (Z.min 4 (Z.of_nat (4 + length body)))) with 4 by lia. change (Nat.max 0 4) with 4. rewrite firstn_O.
      rewrite skipn_app, skipn_all2 by (rewrite zeros_length; lia). rewrite zeros_length, Nat.sub_diag. reflexivity. }
    rewrite Hs by apply int_to_ba_length.
    step. lk. reflexivity.
Qed.

Lemma ext_wf4 : wf_layout 4 T_ext = true.
Proof. vm_compute. reflexivity. Qed.

(* the builder with FORMAT TYPE 1: RETURN DATA LENGTH, the four bytes encode_dict makes of the two header fields, the groups *)
Theorem rtpg_build_exact_extended : forall (all : list tg_item) (itt : N) (ext : bytes) f, Forall tgi_ok all -> 1 <= f ->
  encode_dict [("format_type", VI 1); ("implicit_transition_time", VI itt)] T_ext (zeros 4) = Ok ext ->
  call_fun all_tables py_program f RTPGM
    [PDict [("format_type", PInt 1); ("implicit_transition_time", PInt (Z.of_N itt)); ("target_port_group_descriptors", PList (map tgi_dict all))]]
  = Ok (PBytes (int_to_ba (N.of_nat (length (ext ++ concat (map tgi_bytes all))%list)) 4 ++ ext ++ concat (map tgi_bytes all))%list).
Proof.
  intros all itt ext f Hall Hf Hext. destruct f as [|f]; [lia|].
  unfold call_fun, call_with. rewrite rtpgm_lookup. cbn [fn_params bind_params PF_rtpgm].
  rewrite run_S, exec_if. cbn [eval truthy]. cbn [fn_body PF_rtpgm].
  step. cbn [bytearray_eval as_int]. change (Z.ltb 4 0) with false. change (Z.ltb 1048576 4) with false. cbn iota. change (Z.to_nat 4) with 4.
  rewrite exec_block_cons, exec_if. cbn [eval]. lk. cbn [lookup String.eqb Ascii.eqb Bool.eqb in_eval negb truthy index_eval cmp_eval py_eq as_int].
  change (Z.eqb 1 1) with true. cbn [truthy].
  step. cbn [bytearray_eval as_int]. change (Z.ltb 4 0) with false. change (Z.ltb 1048576 4) with false. cbn iota. change (Z.to_nat 4) with 4.
  step. cbn [lookup String.eqb Ascii.eqb Bool.eqb]. rewrite (proj2 rtpg_tables). unfold with_var. lk.
  assert (Henc : encode_pv [("format_type", PInt 1); ("implicit_transition_time", PInt (Z.of_N itt)); ("target_port_group_descriptors", PList (map tgi_dict all))] T_ext (zeros 4) = Ok ext).
  { change [("format_type", PInt 1); ("implicit_transition_time", PInt (Z.of_N itt)); ("target_port_group_descriptors", PList (map tgi_dict all))]
      with (dict_of_decoded [("format_type", VI 1); ("implicit_transition_time", VI itt)] ++ [("target_port_group_descriptors", PList (map tgi_dict all))])%list.
    rewrite encode_pv_app_unknown by (vm_compute; reflexivity). rewrite encode_pv_of_decoded. exact Hext. }
  rewrite Henc.
  step. cbn [bin_eval as_int]. rewrite exec_block_nil.
  match goal with |- context [exec_block _ _ _ ?blk ?ρ0] =>
    change blk with (skipn 2 (fn_body PF_rtpgm));
    rewrite (rtpgm_tail all ext [("format_type", PInt 1); ("implicit_transition_time", PInt (Z.of_N itt)); ("target_port_group_descriptors", PList (map tgi_dict all))] f ρ0 Hall) end;
    [reflexivity|reflexivity|lk; reflexivity|lk; reflexivity].
Qed.

Definition tg_item_good (g : tg_item) : Prop :=
  tgi_ok g /\ length (tgi_enc g) = 8 /\ decode_bits (tgi_enc g) T_tpgd = Ok (tgi_fields g) /\
  lookup "target_port_count" (dict_of_decoded (tgi_fields g)) = Some (PInt (Z.of_nat (length (tgi_ports g)))) /\
  lookup "format_type" (dict_of_decoded (decode_total (tgi_enc g) T_ext)) = Some (PInt 0) /\
  Forall (fun id => (id < 65536)%N) (tgi_ports g).

Lemma tg_groups_encode (groups : list (list (string * value) * list N)) : Forall tg_group_ok groups ->
  exists gs : list tg_item, map (fun g => (tgi_fields g, tgi_ports g)) gs = groups /\ Forall tg_item_good gs.
Proof.
  intros Hall. induction Hall as [|[dv ids] groups (Hv & Hk & Hc & Hids) _ (gs & Hm & Hg)]; [exists []; split; [reflexivity|constructor]|].
  cbn [fst snd] in *.
  destruct (valid_dict_parts _ _ _ Hv) as (Hnd & Hvals).
  destruct (encode_dict_bits 8 T_tpgd dv (zeros 8) (zeros_length 8) (bytes_ok_zeros 8) Hvals) as (enc & He & Hl & _).
  exists (mkTgi dv ids enc :: gs). split; [cbn [map tgi_fields tgi_ports]; now rewrite Hm|].
  constructor; [|exact Hg]. unfold tg_item_good, tgi_ok. cbn [tgi_fields tgi_ports tgi_enc].
  pose proof (lookup_dict_of_decoded dv _ _ Hnd Hc) as Hlc. cbn [pv_of_value] in Hlc. rewrite nat_N_Z in Hlc.
  repeat split; try assumption.
  - apply lookup_not_in. rewrite dict_of_decoded_names, Hk. vm_compute. reflexivity.
  - exact (decode_bits_of_encoded 8 T_tpgd dv enc tpgd_wf8 Hv Hk He).
  - exact (tg_enc_reserved dv enc Hv Hk He).
Qed.

(* build, then parse, with the extended header: FORMAT TYPE 1 and the IMPLICIT TRANSITION TIME come back, and the groups as before *)
Theorem rtpg_parse_inverts_build_extended : forall (groups : list (list (string * value) * list N)) (itt : N) f,
  Forall tg_group_ok groups -> (itt < 256)%N ->
  (Z.of_nat (4 + fold_right (fun g acc => (8 + 4 * length (snd g) + acc)%nat) 0%nat groups) < 4294967296)%Z ->
  2 * fold_right (fun g acc => (8 + 4 * length (snd g) + acc)%nat) 0%nat groups + 4 <= f ->
  exists built,
    call_fun all_tables py_program f RTPGM
      [PDict [("format_type", PInt 1); ("implicit_transition_time", PInt (Z.of_N itt)); ("target_port_group_descriptors", PList (map tg_group_dict groups))]] = Ok (PBytes built) /\
    call_fun all_tables py_program f RTPG [PBytes built] =
      Ok (PDict [("format_type", PInt 1); ("implicit_transition_time", PInt (Z.of_N itt)); ("target_port_group_descriptors", PList (map tg_group_dict groups))]).
Proof.
  intros groups itt f Hall Hitt Hsmall Hf.
  destruct (tg_groups_encode groups Hall) as (gs & Hm & Hg).
  (* the four bytes of the extended header *)
  set (hd := [("format_type", VI 1); ("implicit_transition_time", VI itt)]).
  assert (Hvd : valid_dict 4 T_ext hd = true).
  { unfold valid_dict. apply andb_true_intro. split; [reflexivity|]. cbn [forallb hd]. unfold val_okb. cbn [fst snd].
    change (lookup "format_type" T_ext) with (Some (Mask 112 0)). change (lookup "implicit_transition_time" T_ext) with (Some (Mask 255 1)).
    change (geom_of 4 (Mask 112 0)) with (geom_of 4 (Mask 112 0)). vm_compute geom_of. cbn [vint g_w].
    change (1 <? 2 ^ 3)%N with true. cbn [andb]. rewrite andb_true_r. apply N.ltb_lt. change (2 ^ 8)%N with 256%N. exact Hitt. }
  destruct (valid_dict_parts _ _ _ Hvd) as (_ & Hvals).
  destruct (encode_dict_bits 4 T_ext hd (zeros 4) (zeros_length 4) (bytes_ok_zeros 4) Hvals) as (ext & Hext & Hlext & _).
  pose proof (decode_bits_of_encoded 4 T_ext hd ext ext_wf4 Hvd eq_refl Hext) as Hdec.
  assert (Hdicts : map tg_group_dict groups = map tgi_dict gs) by (rewrite <- Hm, map_map; reflexivity).
  assert (Hok : Forall tgi_ok gs) by (eapply Forall_impl; [|exact Hg]; intros g H; apply H).
  pose proof (rtpg_build_exact_extended gs itt ext f Hok ltac:(lia) Hext) as Hbuild.
  rewrite Hdicts. eexists. split; [exact Hbuild|].
  set (tpgs := map (fun g => mkTpg (tgi_enc g) (map tgi_port_bytes (tgi_ports g))) gs).
  assert (Hbytes : map tgi_bytes gs = map tpg_bytes tpgs) by (unfold tpgs; rewrite map_map; reflexivity).
  assert (Hpd : Forall tpg_ok tpgs).
  { unfold tpgs. apply Forall_map. eapply Forall_impl; [|exact Hg]. intros g (_ & Hl & Hd & Hc & _ & _).
    unfold tpg_ok, tpg_fields. cbn [g_hdr g_ports]. split; [exact Hl|]. split.
    - apply Forall_map. apply Forall_forall. intros id _. unfold tgi_port_bytes. rewrite app_length, zeros_length, int_to_ba_length. reflexivity.
    - unfold decode_total. rewrite Hd, map_length. exact Hc. }
  assert (Hlen : length (concat (map tpg_bytes tpgs)) = fold_right (fun g acc => (8 + 4 * length (snd g) + acc)%nat) 0%nat groups).
  { rewrite <- Hm. unfold tpgs. clear -Hg. induction Hg as [|g gs (_ & Hl & _) _ IH]; [reflexivity|].
    cbn [map fold_right snd]. change (concat (?x :: ?l)) with (x ++ concat l)%list. rewrite app_length, IH. unfold tpg_bytes. cbn [g_hdr g_ports].
    rewrite app_length, Hl. f_equal. f_equal.
    rewrite (concat_len_const _ 4), map_length; [reflexivity|]. apply Forall_map, Forall_forall. intros id _.
    unfold tgi_port_bytes. rewrite app_length, zeros_length, int_to_ba_length. reflexivity. }
  rewrite Hbytes.
  pose proof (rtpg_exact_extended_header (int_to_ba (N.of_nat (length (ext ++ concat (map tpg_bytes tpgs))%list)) 4) ext tpgs [] (PInt (Z.of_N itt)) f) as Hex.
  rewrite app_nil_r in Hex. rewrite Hex.
  - do 7 f_equal. unfold tpgs. rewrite map_map. apply map_ext_in. intros g Hin.
    rewrite Forall_forall in Hg. destruct (Hg _ Hin) as (_ & _ & Hd & _ & _ & Hids).
    unfold tpg_dict, tgi_dict, tpg_fields. cbn [g_hdr g_ports]. unfold decode_total. rewrite Hd. do 5 f_equal.
    rewrite map_map. apply map_ext_in. intros id Hid. rewrite Forall_forall in Hids. specialize (Hids _ Hid).
    unfold port_dict, tgi_port_dict, tgi_port_bytes. do 5 f_equal.
    rewrite skipn_app, skipn_all2 by (rewrite zeros_length; lia). rewrite zeros_length. change (2 - 2) with 0. rewrite skipn_O.
    change (@nil N ++ int_to_ba id 2)%list with (int_to_ba id 2).
    rewrite ba_to_int_to_ba. apply N.mod_small. exact Hids.
  - apply int_to_ba_length.
  - exact Hlext.
  - exact Hpd.
  - rewrite ba_to_int_to_ba, app_length, Hlext. rewrite N.mod_small by (change (256 ^ N.of_nat 4)%N with 4294967296%N; lia). lia.
  - unfold decode_total. rewrite Hdec. reflexivity.
  - unfold decode_total. rewrite Hdec. reflexivity.
  - lia.
Qed.
