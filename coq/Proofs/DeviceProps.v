(* Proofs/DeviceProps.v — invariants of SCSIDevice over ALL event sequences (execute / replug / unplug /
   close-failure / close / exit), for the try-close-finally-open prologue. *)
From Coq Require Import String.
From PS Require Import Base.Bytes Base.Result Model.Device.
Set Default Timeout 60.
Open Scope nat_scope.

Definition P := PTryCloseFinallyOpen.

Lemma nth_app_new {A} (l : list A) x d : nth (length l) (l ++ [x]) d = x.
Proof. rewrite app_nth2 by lia. now rewrite Nat.sub_diag. Qed.

Lemma nth_set_nth_same {A} (l : list A) i x d : i < length l -> nth i (set_nth l i x) d = x.
Proof. revert i; induction l as [|y l IH]; intros [|i] H; cbn in *; try lia; [reflexivity|apply IH; lia]. Qed.
Lemma nth_set_nth_other {A} (l : list A) i j x d : i <> j -> nth j (set_nth l i x) d = nth j l d.
Proof. revert i j; induction l as [|y l IH]; intros [|i] [|j] H; cbn; try reflexivity; try congruence. apply IH. congruence. Qed.
Lemma set_nth_length {A} (l : list A) i x : length (set_nth l i x) = length l.
Proof. revert i; induction l as [|y l IH]; intros [|i]; cbn; auto. Qed.

(* the current handle exists and is a handle on the inode the device remembers *)
Definition Inv (wd : world * dev) : Prop :=
  let '(w, d) := wd in d_cur d < length (w_handles w) /\ h_inode (the_handle w (d_cur d)) = d_ino d.

Lemma do_close_handles w h : forall w' r, do_close w h = (w', r) ->
  length (w_handles w') = length (w_handles w) /\ w_node w' = w_node w /\ w_next w' = w_next w /\
  (forall j, h_inode (the_handle w' j) = h_inode (the_handle w j)).
Proof.
  intros w' r H. unfold do_close in H. destruct (h_open (the_handle w h)) eqn:Ho.
  - destruct (w_close_fails w); inversion H; subst; cbn [w_handles w_node w_next].
    + repeat split; auto.
    + rewrite set_nth_length. repeat split; auto. intros j. unfold the_handle. cbn [w_handles].
      destruct (Nat.eq_dec h j) as [->|Hne].
      * destruct (Nat.lt_ge_cases j (length (w_handles w))) as [Hl|Hl].
        -- rewrite nth_set_nth_same by assumption. reflexivity.
        -- rewrite !nth_overflow; [reflexivity| |]; rewrite ?set_nth_length; lia.
      * now rewrite nth_set_nth_other.
  - inversion H; subst. repeat split; auto.
Qed.

Lemma step_inv wd e : Inv wd -> Inv (fst (step P wd e)).
Proof.
  destruct wd as [w d]. intros [Ha Hb]. unfold step, P.
  destruct e; cbn [fst]; try (split; assumption).
  - (* execute *)
    destruct (d_detect d); [|split; assumption].
    destruct (w_node w) as [i|] eqn:Hn; [|split; assumption].
    destruct (Nat.eqb i (d_ino d)); [split; assumption|].
    destruct (do_close w (d_cur d)) as [w1 raised] eqn:Hc.
    destruct (do_close_handles _ _ _ _ Hc) as (Hl & Hn1 & _ & _).
    unfold do_open. rewrite Hn1, Hn.
    destruct raised; cbn [fst]; unfold Inv; cbn [d_cur d_ino w_handles];
      (split; [rewrite app_length; cbn; lia|unfold the_handle; cbn [w_handles]; now rewrite nth_app_new]).
  - (* close *)
    destruct (do_close w (d_cur d)) as [w1 raised] eqn:Hc. cbn [fst].
    destruct (do_close_handles _ _ _ _ Hc) as (Hl & _ & _ & Hi). split; [lia|now rewrite Hi].
  - destruct (do_close w (d_cur d)) as [w1 raised] eqn:Hc. cbn [fst].
    destruct (do_close_handles _ _ _ _ Hc) as (Hl & _ & _ & Hi). split; [lia|now rewrite Hi].
Qed.

(* one event: what is sent goes through a handle on the node that exists now; a vanished node is an error;
   after the event the device holds a handle on the current node — also when closing the stale handle failed *)
Lemma step_fresh wd e : Inv wd -> d_detect (snd wd) = true ->
  match snd (step P wd e) with
  | OSent h hi node _ => node = Some hi
  | _ => True
  end /\
  (e = EExecute -> w_node (fst wd) = None -> snd (step P wd e) = ORaised OSError /\ fst (step P wd e) = wd) /\
  (e = EExecute -> forall i, w_node (fst wd) = Some i -> d_ino (snd (fst (step P wd e))) = i) /\
  d_detect (snd (fst (step P wd e))) = true.
Proof.
  destruct wd as [w d]. intros [Ha Hb] Hd. cbn [fst snd] in *. unfold step, P.
  destruct e; cbn [fst snd]; try (repeat split; try exact I; try discriminate; assumption).
  - rewrite Hd. destruct (w_node w) as [i|] eqn:Hn.
    + destruct (Nat.eqb_spec i (d_ino d)) as [E|E].
      * cbn [fst snd]. split; [|split; [|split]].
        -- unfold send. rewrite Hn, Hb. now rewrite E.
        -- intros _ Hnone. discriminate Hnone.
        -- intros _ j Hj. inversion Hj; subst. reflexivity.
        -- first [assumption|reflexivity].
      * destruct (do_close w (d_cur d)) as [w1 raised] eqn:Hc.
        destruct (do_close_handles _ _ _ _ Hc) as (Hl & Hn1 & _ & _).
        unfold do_open. rewrite Hn1, Hn.
        destruct raised; cbn [fst snd d_ino d_detect]; (split; [|split; [|split]]).
        -- exact I.
        -- intros _ Hnone. discriminate Hnone.
        -- intros _ j Hj. now inversion Hj.
        -- first [assumption|reflexivity].
        -- unfold send, the_handle. cbn [d_cur w_handles w_node]. rewrite nth_app_new. cbn [h_inode]. try rewrite Hn1; try rewrite Hn; reflexivity.
        -- intros _ Hnone. discriminate Hnone.
        -- intros _ j Hj. now inversion Hj.
        -- first [assumption|reflexivity].
    + cbn [fst snd]. split; [exact I|]. split; [auto|]. split; [intros _ j Hj; discriminate Hj|first [assumption|reflexivity]].
  - destruct (do_close w (d_cur d)) as [w1 raised]. cbn [fst snd]. destruct raised; repeat split; try exact I; try discriminate; assumption.
  - destruct (do_close w (d_cur d)) as [w1 raised]. cbn [fst snd]. destruct raised; repeat split; try exact I; try discriminate; assumption.
Qed.

Definition sent_fresh (o : out) : Prop := match o with OSent _ hi node _ => node = Some hi | _ => True end.

Theorem run_fresh es : forall wd, Inv wd -> d_detect (snd wd) = true -> Forall sent_fresh (snd (run P wd es)).
Proof.
  induction es as [|e es IH]; intros wd HI Hd; cbn [run]; [constructor|].
  pose proof (step_fresh wd e HI Hd) as (Hs & _ & _ & Hd').
  pose proof (step_inv wd e HI) as HI'.
  destruct (step P wd e) as [wd1 o]. cbn [fst snd] in *.
  specialize (IH wd1 HI' Hd'). destruct (run P wd1 es) as [wd2 os]. cbn [snd] in *.
  constructor; assumption.
Qed.

Lemma init_inv detect : Inv (init detect).
Proof. unfold Inv, init. cbn. split; [lia|reflexivity]. Qed.

(* with detection disabled the original handle is kept for ever *)
Theorem keep_handle p es : forall wd, d_detect (snd wd) = false ->
  d_cur (snd (fst (run p wd es))) = d_cur (snd wd) /\ d_detect (snd (fst (run p wd es))) = false.
Proof.
  induction es as [|e es IH]; intros [w d] Hd; cbn [run fst snd] in *; [auto|].
  assert (Hs : snd (fst (step p (w, d) e)) = d).
  { unfold step. destruct e; cbn [fst snd]; try reflexivity.
    - rewrite Hd. reflexivity.
    - destruct (do_close w (d_cur d)); reflexivity.
    - destruct (do_close w (d_cur d)); reflexivity. }
  destruct (step p (w, d) e) as [[w1 d1] o]. cbn [fst snd] in Hs. subst d1.
  specialize (IH (w1, d) Hd). destruct (run p (w1, d) es) as [wd2 os]. exact IH.
Qed.

(* every handle is released at most once at the OS level, and a released handle is not open *)
Definition handles_ok (w : world) : Prop :=
  Forall (fun h => h_closes h <= 1 /\ (h_open h = true -> h_closes h = 0)) (w_handles w).

Lemma Forall_set_nth {A} (Pp : A -> Prop) l i x : Forall Pp l -> Pp x -> Forall Pp (set_nth l i x).
Proof.
  intros Hl Hx. revert i; induction Hl as [|y l Hy Hl IH]; intros [|i]; cbn; constructor; auto.
Qed.

Lemma do_close_ok w h w' r : handles_ok w -> do_close w h = (w', r) -> handles_ok w'.
Proof.
  unfold handles_ok, do_close. intros H Hc. destruct (h_open (the_handle w h)) eqn:Ho.
  - destruct (w_close_fails w); inversion Hc; subst; cbn [w_handles]; [assumption|].
    apply Forall_set_nth; [assumption|]. cbn.
    assert (Hin : h_closes (the_handle w h) = 0).
    { unfold the_handle in *. destruct (Nat.lt_ge_cases h (length (w_handles w))) as [Hl|Hl].
      - rewrite Forall_forall in H. apply (H _ (nth_In _ _ Hl)). exact Ho.
      - rewrite nth_overflow in Ho by lia. discriminate. }
    rewrite Hin. split; [lia|discriminate].
  - inversion Hc; subst. assumption.
Qed.

Theorem release_once p es : forall wd, handles_ok (fst wd) -> handles_ok (fst (fst (run p wd es))).
Proof.
  induction es as [|e es IH]; intros [w d] H; cbn [run fst]; [assumption|].
  assert (Hs : handles_ok (fst (fst (step p (w, d) e)))).
  { unfold step. destruct e; cbn [fst]; try assumption.
    - destruct (d_detect d); [|assumption].
      assert (Hopen : forall w0, handles_ok w0 -> forall w2 h i, do_open w0 = Some (w2, h, i) -> handles_ok w2).
      { intros w0 H0 w2 h i Ho. unfold do_open in Ho. destruct (w_node w0); inversion Ho; subst.
        unfold handles_ok in *. cbn [w_handles]. apply Forall_app. split; [assumption|]. repeat constructor; cbn; auto. }
      destruct p; cbn [fst]; try assumption; destruct (w_node w) as [i|]; cbn [fst]; try assumption;
        destruct (Nat.eqb i (d_ino d)); cbn [fst]; try assumption.
      + destruct (do_close w (d_cur d)) as [w1 r] eqn:Hc. pose proof (do_close_ok _ _ _ _ H Hc) as H1.
        destruct r; cbn [fst]; [assumption|]. destruct (do_open w1) as [[[w2 h] ino]|] eqn:Ho; cbn [fst]; [|assumption].
        eapply Hopen; eassumption.
      + destruct (do_close w (d_cur d)) as [w1 r] eqn:Hc. pose proof (do_close_ok _ _ _ _ H Hc) as H1.
        destruct (do_open w1) as [[[w2 h] ino]|] eqn:Ho; [|cbn [fst]; assumption].
        destruct r; cbn [fst]; eapply Hopen; eassumption.
      + destruct (do_open w) as [[[w2 h] ino]|] eqn:Ho; cbn [fst]; [|assumption]. eapply Hopen; eassumption.
    - destruct (do_close w (d_cur d)) as [w1 r] eqn:Hc. cbn [fst]. eapply do_close_ok; eassumption.
    - destruct (do_close w (d_cur d)) as [w1 r] eqn:Hc. cbn [fst]. eapply do_close_ok; eassumption. }
  destruct (step p (w, d) e) as [[w1 d1] o]. cbn [fst] in Hs.
  specialize (IH (w1, d1) Hs). destruct (run p (w1, d1) es). exact IH.
Qed.

(* close() / leaving a with block releases the current handle (unless the close itself fails) *)
Theorem close_releases p w d : w_close_fails w = false ->
  h_open (the_handle (fst (fst (step p (w, d) EClose))) (d_cur d)) = false.
Proof.
  intros Hf. unfold step, do_close. destruct (h_open (the_handle w (d_cur d))) eqn:Ho.
  - rewrite Hf. cbn [fst]. unfold the_handle in *. cbn [w_handles].
    destruct (Nat.lt_ge_cases (d_cur d) (length (w_handles w))) as [Hl|Hl].
    + rewrite nth_set_nth_same by assumption. reflexivity.
    + rewrite nth_overflow in Ho by lia. discriminate.
  - cbn [fst]. exact Ho.
Qed.
