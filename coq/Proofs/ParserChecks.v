(* Proofs/ParserChecks.v — the decidable side conditions of C04 on the REGENERATED tables and decoder skeletons
   against Spec/RespFormats.v, and what they imply. *)
From Coq Require Import String Lia.
From PS Require Import Base.Bytes Base.Result Model.Converter Model.Parser Model.ParserInst Model.CorrUtil Model.VarList.
From PS Require Import Proofs.Codec Proofs.Layout Proofs.ParserProps Proofs.VarListProps Spec.RespFormats Gen.Tables Gen.Parsers.
Set Default Timeout 60.
Open Scope string_scope.
Open Scope N_scope.

Definition format_ok (fmt : string * (list string * nat * list rfield)) : bool :=
  let '(_, (names, _, flds)) := fmt in
  match layout_of names with
  | Some L => fields_ok L flds && masks_nonzero L
  | None => false
  end.

Definition formats_ok : bool := forallb format_ok resp_formats.

(* every format: decoding never fails and reports each field from its standard position, for every buffer *)
Theorem formats_sound : formats_ok = true ->
  forall name names n flds, In (name, (names, n, flds)) resp_formats ->
  exists L, layout_of names = Some L /\
    forall data, exists d, decode_bits data L = Ok d /\
      forall k b m w, In (k, b, m, w) flds ->
        lookup k d = Some (VI (std_read data b m w)) \/ lookup k d = Some (VB (std_read_bytes data b w)).
Proof.
  intros H name names n flds Hin. unfold formats_ok in H. rewrite forallb_forall in H. specialize (H _ Hin).
  unfold format_ok in H. destruct (layout_of names) as [L|]; [|discriminate].
  apply andb_prop in H as [Hf Hm]. exists L. split; [reflexivity|]. intros data.
  destruct (decode_bits_total data L Hm) as [d Hd]. exists d. split; [assumption|].
  intros k b m w Hk. eapply table_reads_standard; eauto.
Qed.

(* ---------- decoder structure ---------- *)

Definition names_of (fmt : string) : list string :=
  match lookup fmt resp_formats with Some (names, _, _) => names | None => ["?"] end.

Definition list_str_eqb := list_eqb String.eqb.

(* the whole-buffer decoders apply exactly the format's tables; INQUIRY applies the standard tables for evpd = 0,
   cuts the page at PAGE LENGTH + 4 and applies the page's table for each flat VPD page of the specification *)
Definition structure_ok : bool :=
  option_eqb list_str_eqb (lookup "scsi_cdb_readcapacity10.ReadCapacity10.unmarshall_datain" whole_parsers) (Some (names_of "readcapacity10"))
  && option_eqb list_str_eqb (lookup "scsi_cdb_readcapacity16.ReadCapacity16.unmarshall_datain" whole_parsers) (Some (names_of "readcapacity16"))
  && list_str_eqb (inquiry_pre ++ inquiry_std) (names_of "inquiry_standard")
  && String.eqb inquiry_vpd_trunc "data[:4 + convert.scsi_ba_to_int(data[2:4])]"
  && forallb (fun pf => match find (fun e => fst e =? fst pf) inquiry_vpd_flat with
                        | Some (_, tn) => list_str_eqb [tn] (names_of (snd pf))
                        | None => false
                        end) vpd_pages
  && list_str_eqb (map snd disc_info_dispatch)
       (names_of "disc_information_standard" ++ names_of "disc_information_track_resources" ++ names_of "disc_information_pow_resources")
  && list_eqb N.eqb (map fst disc_info_dispatch) [0; 1; 2]
  && match unknown_parsers with [] => true | _ => false end.

(* the descriptor-list decoders use the standard's list start, length bytes, length base and stride *)
Definition lp_eqb (p : list_params) (q : nat * (nat * nat) * nat * nat) : bool :=
  let '(s, (a, b), bias, k) := q in
  Nat.eqb (lp_start p) s && Nat.eqb (lp_len_a p) a && Nat.eqb (lp_len_b p) b && Nat.eqb (lp_bias p) bias && Nat.eqb (lp_stride p) k.

Definition lists_ok : bool :=
  forallb (fun lf => match lookup (fst lf) list_parsers with
                     | Some (p, _) => lp_eqb p (snd lf) && Nat.ltb 0 (lp_stride p) && Nat.leb (lp_len_b p) (lp_start p)
                     | None => false
                     end) list_formats.

Theorem lists_sound : lists_ok = true ->
  forall fn s a b bias k, In (fn, (s, (a, b), bias, k)) list_formats ->
  forall (hdr : bytes) (descs : list bytes) (trail : bytes),
    length hdr = s -> Forall (fun d => length d = k) descs ->
    (* the length field counts, from byte `bias`, up to the end of the last descriptor *)
    (N.to_nat (ba_to_int (slice hdr a b)) + bias = s + k * length descs)%nat ->
    parse_list_named fn (hdr ++ concat descs ++ trail)%list = Some descs.
Proof.
  intros H fn s a b bias k Hin hdr descs trail Hh Hd Hl.
  unfold lists_ok in H. rewrite forallb_forall in H. specialize (H _ Hin). cbn [fst snd] in H.
  unfold parse_list_named. destruct (lookup fn list_parsers) as [[p tn]|]; [|discriminate].
  apply andb_prop in H as [H Hle]. apply andb_prop in H as [Hp Hlt].
  unfold lp_eqb in Hp. repeat (apply andb_prop in Hp; destruct Hp as [Hp ?]).
  repeat match goal with E : Nat.eqb _ _ = true |- _ => apply Nat.eqb_eq in E end.
  apply Nat.ltb_lt in Hlt. apply Nat.leb_le in Hle.
  apply parse_list_exact; try lia; try congruence; subst; assumption.
Qed.

(* ---------- VPD pages: cutting the page at PAGE LENGTH + 4 does not disturb fields inside the page ---------- *)

Lemma slice_firstn (l : bytes) n a b : (b <= n)%nat -> slice (firstn n l) a b = slice l a b.
Proof.
  intros H. unfold slice. rewrite skipn_firstn_comm, firstn_firstn. f_equal. lia.
Qed.

Lemma std_read_firstn data n b m w : (N.to_nat b + span m w <= n)%nat ->
  std_read (firstn n data) b m w = std_read data b m w.
Proof. intros H. unfold std_read. now rewrite slice_firstn. Qed.

(* ---------- lists of self-describing descriptors ---------- *)

Definition vp_eqb (p : vparams) (q : nat * nat * nat) : bool :=
  let '(f, a, b) := q in Nat.eqb (vp_fixed p) f && Nat.eqb (vp_a p) a && Nat.eqb (vp_b p) b.

(* every decoder the specification names walks its descriptors by the standard's length field, and no decoder walks
   a self-describing list the specification does not know *)
Definition var_lists_ok : bool :=
  forallb (fun sf => existsb (fun v => String.eqb (fst (fst v)) (fst sf) && vp_eqb (snd v) (snd sf)) var_lists) var_list_formats
  && forallb (fun v => existsb (fun sf => String.eqb (fst (fst v)) (fst sf) && vp_eqb (snd v) (snd sf)) var_list_formats) var_lists.

Definition walk_named (fn : string) (region : bytes) : option (list bytes) :=
  match find (fun v => String.eqb (fst (fst v)) fn) var_lists with
  | Some (_, p) => vchunks p (length region) region
  | None => None
  end.

Theorem var_lists_sound : var_lists_ok = true ->
  forall fn f a b, In (fn, (f, a, b)) var_list_formats ->
  exists p, find (fun v => String.eqb (fst (fst v)) fn) var_lists = Some p /\
            vp_fixed (snd p) = f /\ vp_a (snd p) = a /\ vp_b (snd p) = b.
Proof.
  intros H fn f a b Hin. unfold var_lists_ok in H. apply andb_prop in H as [H1 H2].
  rewrite forallb_forall in H1. specialize (H1 _ Hin). cbn [fst snd] in H1.
  apply existsb_exists in H1 as (v & Hv & Hm). apply andb_prop in Hm as [Hn Hp].
  (* the first entry found for fn satisfies the same equation because every entry of var_lists does (H2) *)
  destruct (find (fun v => String.eqb (fst (fst v)) fn) var_lists) as [p|] eqn:Hf.
  - exists p. split; [reflexivity|].
    apply find_some in Hf as [Hpin Hpn]. rewrite forallb_forall in H2. specialize (H2 _ Hpin).
    apply existsb_exists in H2 as (sf & Hsf & Hm2). apply andb_prop in Hm2 as [Hn2 Hp2].
    apply String.eqb_eq in Hpn, Hn2.
    (* sf is the specification entry of the same decoder; the specification lists each decoder once *)
    assert (Hone : snd sf = (f, a, b)).
    { assert (Hu : forallb (fun x => forallb (fun y => negb (String.eqb (fst x) (fst y)) || (let '(f1, a1, b1) := snd x in let '(f2, a2, b2) := snd y in
                                   Nat.eqb f1 f2 && Nat.eqb a1 a2 && Nat.eqb b1 b2)) var_list_formats) var_list_formats = true) by (vm_compute; reflexivity).
      rewrite forallb_forall in Hu. specialize (Hu _ Hsf). rewrite forallb_forall in Hu. specialize (Hu _ Hin).
      cbn [fst snd] in Hu. rewrite <- Hn2, Hpn, String.eqb_refl in Hu. cbn [negb orb] in Hu.
      destruct (snd sf) as [[f1 a1] b1]. repeat (apply andb_prop in Hu; destruct Hu as [Hu ?]).
      repeat match goal with E : Nat.eqb _ _ = true |- _ => apply Nat.eqb_eq in E end. congruence. }
    unfold vp_eqb in Hp2. rewrite Hone in Hp2. repeat (apply andb_prop in Hp2; destruct Hp2 as [Hp2 ?]).
    repeat match goal with E : Nat.eqb _ _ = true |- _ => apply Nat.eqb_eq in E end. auto.
  - exfalso. apply String.eqb_eq in Hn. eapply (find_none _ _ Hf) in Hv. cbn beta in Hv. rewrite Hn, String.eqb_refl in Hv. discriminate.
Qed.
