(* Proofs/ParserProps.v — (1) a mask table entry that denotes the standard's (byte, msb, width) makes decode_bits
   report exactly what the standard's reader finds there, for every buffer; (2) a fixed-stride descriptor list
   is returned whole, in order, and nothing beyond the reported length. *)
From Coq Require Import String Lia.
From PS Require Import Base.Bytes Base.Result Model.Converter Model.Parser Proofs.Codec Proofs.Layout.
Set Default Timeout 60.
Open Scope string_scope.
Open Scope N_scope.

(* ---------- (1) fields ---------- *)

Definition mask_at (mk o b m w : N) : bool :=
  match ctz mk with
  | Some z =>
      (o =? b) && Nat.eqb (nbytes mk) (span m w) && (m <? 8) && (1 <=? w)
      && ((7 - m) + w <=? 8 * N.of_nat (span m w))
      && (z =? 8 * N.of_nat (span m w) - (7 - m) - w) && (N.shiftr mk z =? N.ones w)
  | None => false
  end.

Definition field_ok (L : layout) (fld : string * N * N * N) : bool :=
  let '(k, b, m, w) := fld in
  match lookup k L with
  | Some (Mask mk o) => mask_at mk o b m w
  | Some (Blob u o len) => (o =? b) && (m =? 7) && (8 * (len * u) =? w)
  | None => false
  end.

Definition fields_ok (L : layout) (flds : list (string * N * N * N)) : bool := forallb (field_ok L) flds.

Lemma decode1_std data mk o b m w :
  mask_at mk o b m w = true -> decode1 data (Mask mk o) = Ok (VI (std_read data b m w)).
Proof.
  unfold mask_at, decode1. destruct (ctz mk) as [z|]; [|discriminate]. intros H.
  repeat (apply andb_prop in H; destruct H as [H ?]).
  repeat match goal with
         | E : (_ =? _) = true |- _ => apply N.eqb_eq in E
         | E : Nat.eqb _ _ = true |- _ => apply Nat.eqb_eq in E
         end.
  subst o. cbv zeta. f_equal. f_equal. unfold std_read.
  match goal with E : nbytes mk = _ |- _ => rewrite E end.
  match goal with E : N.shiftr mk z = _ |- _ => rewrite E end.
  rewrite N.land_ones, N.shiftr_div_pow2. subst z. reflexivity.
Qed.

Lemma decode1_std_blob data u o len b w :
  (o =? b) && (7 =? 7) && (8 * (len * u) =? w) = true ->
  decode1 data (Blob u o len) = Ok (VB (std_read_bytes data b w)).
Proof.
  intros H. apply andb_prop in H as [H Hw]. apply andb_prop in H as [Ho _].
  apply N.eqb_eq in Ho, Hw. subst o w. unfold decode1, std_read_bytes.
  replace (8 * (len * u) / 8) with (len * u); [reflexivity|].
  rewrite (N.mul_comm 8). now rewrite N.div_mul.
Qed.

Lemma decode_bits_lookup data : forall L d k f,
  decode_bits data L = Ok d -> lookup k L = Some f ->
  exists v, decode1 data f = Ok v /\ lookup k d = Some v.
Proof.
  induction L as [|[k0 f0] L IH]; intros d k f Hd Hl; [discriminate|].
  cbn [decode_bits] in Hd. destruct (decode1 data f0) as [v0|] eqn:E0; [|discriminate].
  destruct (decode_bits data L) as [rest|] eqn:ER; [|discriminate]. inversion Hd; subst d.
  cbn [lookup] in *. destruct (String.eqb k k0).
  - inversion Hl; subst f0. exists v0. auto.
  - eapply IH; eauto.
Qed.

(* every field of the format is reported with the value the standard's reader finds at its position *)
Theorem table_reads_standard L flds :
  fields_ok L flds = true ->
  forall data d, decode_bits data L = Ok d ->
  forall k b m w, In (k, b, m, w) flds ->
    lookup k d = Some (VI (std_read data b m w)) \/ lookup k d = Some (VB (std_read_bytes data b w)).
Proof.
  intros Hok data d Hd k b m w Hin. unfold fields_ok in Hok. rewrite forallb_forall in Hok.
  specialize (Hok _ Hin). unfold field_ok in Hok.
  destruct (lookup k L) as [f|] eqn:Hl; [|discriminate].
  destruct (decode_bits_lookup data L d k f Hd Hl) as (v & Hv & Hlk). rewrite Hlk.
  destruct f as [mk o|u o len].
  - left. rewrite (decode1_std data mk o b m w Hok) in Hv. now inversion Hv.
  - right. assert (Hm : m = 7).
    { apply andb_prop in Hok as [H _]. apply andb_prop in H as [_ H]. now apply N.eqb_eq in H. }
    subst m. rewrite (decode1_std_blob data u o len b w Hok) in Hv. now inversion Hv.
Qed.

(* decode_bits cannot fail on a table whose masks are all non-zero *)
Definition masks_nonzero (L : layout) : bool :=
  forallb (fun kf => match snd kf with Mask mk _ => match ctz mk with Some _ => true | None => false end | Blob _ _ _ => true end) L.

Lemma decode_bits_total data L : masks_nonzero L = true -> exists d, decode_bits data L = Ok d.
Proof.
  induction L as [|[k f] L IH]; intros H; [now exists []|].
  cbn [masks_nonzero forallb snd] in H. apply andb_prop in H as [Hf H]. destruct (IH H) as [d Hd].
  cbn [decode_bits]. rewrite Hd. destruct f as [mk o|u o len]; cbn [decode1].
  - destruct (ctz mk); [|discriminate]. eexists. reflexivity.
  - eexists. reflexivity.
Qed.

(* ---------- (2) descriptor lists ---------- *)

Lemma chunks_step stride fuel (d : bytes) : d <> [] ->
  chunks stride (S fuel) d =
  match chunks stride fuel (skipn stride d) with Some cs => Some (firstn stride d :: cs) | None => None end.
Proof. destruct d; [contradiction|reflexivity]. Qed.

Lemma chunks_concat stride (descs : list bytes) : (0 < stride)%nat ->
  Forall (fun d => length d = stride) descs ->
  forall fuel, (length descs <= fuel)%nat -> chunks stride fuel (concat descs) = Some descs.
Proof.
  intros Hs H. induction H as [|d ds Hd Hds IH]; intros fuel Hf; [destruct fuel; reflexivity|].
  cbn [concat]. destruct fuel as [|fuel]; [cbn in Hf; lia|].
  rewrite chunks_step by (destruct d; [cbn in Hd; lia|discriminate]).
  assert (E1 : skipn stride (d ++ concat ds)%list = concat ds).
  { rewrite <- Hd, skipn_app, skipn_all, Nat.sub_diag. reflexivity. }
  assert (E2 : firstn stride (d ++ concat ds)%list = d).
  { rewrite <- Hd, firstn_app, Nat.sub_diag, firstn_all. cbn [firstn]. apply app_nil_r. }
  rewrite E1, E2, IH by (cbn [length] in Hf; lia). reflexivity.
Qed.

(* a response laid out as: header of lp_start bytes, the descriptors, anything after them; the length field says
   where the descriptors end.  Every descriptor is returned whole and in order, nothing beyond is reported. *)
Theorem parse_list_exact p (hdr : bytes) (descs : list bytes) (trail : bytes) :
  (0 < lp_stride p)%nat -> length hdr = lp_start p -> (lp_len_b p <= lp_start p)%nat ->
  Forall (fun d => length d = lp_stride p) descs ->
  (N.to_nat (ba_to_int (slice hdr (lp_len_a p) (lp_len_b p))) + lp_bias p = lp_start p + lp_stride p * length descs)%nat ->
  parse_list p (hdr ++ concat descs ++ trail)%list = Some descs.
Proof.
  intros Hs Hh Hlb Hd Hlen. unfold parse_list, list_body.
  assert (Hsl : slice (hdr ++ concat descs ++ trail)%list (lp_len_a p) (lp_len_b p) = slice hdr (lp_len_a p) (lp_len_b p)).
  { unfold slice. rewrite skipn_app, firstn_app. rewrite skipn_length.
    replace (lp_len_b p - lp_len_a p - (length hdr - lp_len_a p))%nat with 0%nat by lia.
    cbn [firstn]. now rewrite app_nil_r. }
  rewrite Hsl.
  assert (Hcl0 : length (concat descs) = (lp_stride p * length descs)%nat).
  { clear -Hd. induction Hd as [|d ds Hd _ IH]; [cbn; lia|]. cbn [concat length]. rewrite app_length, IH, Hd. lia. }
  assert (Hend : N.to_nat (N.min (ba_to_int (slice hdr (lp_len_a p) (lp_len_b p)) + N.of_nat (lp_bias p))
                                 (N.of_nat (length (hdr ++ concat descs ++ trail)%list))) = (lp_start p + lp_stride p * length descs)%nat).
  { rewrite !app_length, Hcl0, Hh. lia. }
  rewrite Hend.
  assert (Hcl : length (concat descs) = (lp_stride p * length descs)%nat).
  { clear -Hd. induction Hd as [|d ds Hd _ IH]; [cbn; lia|]. cbn [concat length]. rewrite app_length, IH, Hd. lia. }
  assert (Hb : slice (hdr ++ concat descs ++ trail)%list (lp_start p) (lp_start p + lp_stride p * length descs) = concat descs).
  { unfold slice. rewrite <- Hh, skipn_app, skipn_all, Nat.sub_diag. cbn [skipn app].
    replace (length hdr + lp_stride p * length descs - length hdr)%nat with (length (concat descs)) by lia.
    rewrite firstn_app, Nat.sub_diag, firstn_all. cbn [firstn]. now rewrite app_nil_r. }
  rewrite Hb. apply chunks_concat; try assumption.
  rewrite !app_length, Hcl. destruct (lp_stride p); [lia|]. nia.
Qed.
