(* Proofs/CtorSound.v — what every constructor of the recognised shape does, for ALL arguments:
   if it returns, its CDB is encode_dict of the build_cdb keyword values over the class's own table
   on a zero buffer of the SAM length of the opcode, and the keyword values are the caller's
   arguments wherever the body does not reassign them.  Proved once, over the IR; the per-class
   obligation is the decidable shape check on the REGENERATED term. *)
From Coq Require Import String.
From PS Require Import Base.Bytes Base.Result Model.Converter Model.Command Model.Ctor.
Set Default Timeout 60.
Open Scope string_scope.

(* ---------- free variables ---------- *)

Fixpoint fv (e : iexpr) : list string :=
  match e with
  | EVar x => [x]
  | EMul a b | EAdd a b => fv a ++ fv b
  | ELen a => fv a
  | EIf c a b => fvc c ++ fv a ++ fv b
  | ECall _ args => args
  | _ => []
  end
with fvc (c : cond) : list string :=
  match c with
  | CEq a b => fv a ++ fv b
  | CTruthy e | CIsNone e => fv e
  | CNot c' => fvc c'
  | CAnd a b | COr a b => fvc a ++ fvc b
  | CUnknown _ => []
  end.

Definition fv_kvs (kvs : list (string * iexpr)) : list string := flat_map (fun kv => fv (snd kv)) kvs.

Definition assigned1 (s : sstmt) : list string :=
  match s with SAssign x _ | SAssignC x _ => [x] | _ => [] end.
Definition assigned (body : list gstmt) : list string := flat_map (fun gs => assigned1 (snd gs)) body.

Definition agree (xs : list string) (ρ ρ' : env) : Prop := forall x, In x xs -> lookup x ρ = lookup x ρ'.

Scheme iexpr_ind2 := Induction for iexpr Sort Prop
  with cond_ind2 := Induction for cond Sort Prop.
Combined Scheme iexpr_cond_ind from iexpr_ind2, cond_ind2.

Section Sound.
  Variable ext : string -> list cval -> result cval.
  Variable op : opcode.
  Variable K : ctor.
  Variable init_len : N -> result nat.

  Lemma get_all_agree ρ ρ' xs : agree xs ρ ρ' -> get_all ρ xs = get_all ρ' xs.
  Proof.
    induction xs as [|x xs IH]; intros H; cbn [get_all]; [reflexivity|].
    rewrite (H x (or_introl eq_refl)). f_equal. apply IH. intros y Hy. apply H. now right.
  Qed.

  Lemma agree_app_l xs ys ρ ρ' : agree (xs ++ ys) ρ ρ' -> agree xs ρ ρ'.
  Proof. intros H x Hx. apply H. apply in_or_app. now left. Qed.
  Lemma agree_app_r xs ys ρ ρ' : agree (xs ++ ys) ρ ρ' -> agree ys ρ ρ'.
  Proof. intros H x Hx. apply H. apply in_or_app. now right. Qed.

  (* unfolding equations (cbn does not refold mutual fixpoints) *)
  Lemma eval_eq ρ e : eval ext op ρ e =
    match e with
    | EVar x => get ρ x
    | EConst n => Ok (CInt n)
    | ENone => Ok CNone
    | EBytes0 => Ok (CBytes [])
    | EOpValue => Ok (CInt (op_value op))
    | ESA name => match lookup name (op_sa op) with Some v => Ok (CInt v) | None => Raise AttributeError end
    | EMul a b => match eval ext op ρ a with
                  | Raise e => Raise e
                  | Ok va => match eval ext op ρ b with
                             | Raise e => Raise e
                             | Ok vb => match va, vb with CInt x, CInt y => Ok (CInt (x * y)) | _, _ => Raise TypeError end
                             end
                  end
    | EAdd a b => match eval ext op ρ a with
                  | Raise e => Raise e
                  | Ok va => match eval ext op ρ b with
                             | Raise e => Raise e
                             | Ok vb => match va, vb with CInt x, CInt y => Ok (CInt (x + y)) | _, _ => Raise TypeError end
                             end
                  end
    | ELen a => match eval ext op ρ a with
                | Raise e => Raise e
                | Ok (CBytes b) => Ok (CInt (N.of_nat (length b)))
                | Ok (CZeros n) => Ok (CInt n)
                | Ok _ => Raise TypeError
                end
    | EIf c a b => match evalc ext op ρ c with
                   | Raise e => Raise e
                   | Ok true => eval ext op ρ a
                   | Ok false => eval ext op ρ b
                   end
    | ECall fn args => ext fn (get_all ρ args)
    | EUnknown _ => Raise (OtherExn "Unknown")
    end.
  Proof. destruct e; reflexivity. Qed.

  Lemma evalc_eq ρ c : evalc ext op ρ c =
    match c with
    | CEq a b => match eval ext op ρ a with
                 | Raise e => Raise e
                 | Ok va => match eval ext op ρ b with Raise e => Raise e | Ok vb => Ok (cval_eqb va vb) end
                 end
    | CTruthy e => match eval ext op ρ e with Raise e' => Raise e' | Ok v => Ok (truthy v) end
    | CNot c' => match evalc ext op ρ c' with Raise e => Raise e | Ok b => Ok (negb b) end
    | CAnd a b => match evalc ext op ρ a with Raise e => Raise e | Ok false => Ok false | Ok true => evalc ext op ρ b end
    | COr a b => match evalc ext op ρ a with Raise e => Raise e | Ok true => Ok true | Ok false => evalc ext op ρ b end
    | CIsNone e => match eval ext op ρ e with Raise e' => Raise e' | Ok CNone => Ok true | Ok _ => Ok false end
    | CUnknown _ => Raise (OtherExn "Unknown")
    end.
  Proof. destruct c; reflexivity. Qed.

  Lemma eval_agree_both :
    (forall e ρ ρ', agree (fv e) ρ ρ' -> eval ext op ρ e = eval ext op ρ' e) /\
    (forall c ρ ρ', agree (fvc c) ρ ρ' -> evalc ext op ρ c = evalc ext op ρ' c).
  Proof.
    apply iexpr_cond_ind; intros; cbn [fv fvc] in *;
      match goal with
      | |- eval _ _ ?r ?e = eval _ _ ?r' _ => rewrite (eval_eq r e), (eval_eq r' e)
      | |- evalc _ _ ?r ?c = evalc _ _ ?r' _ => rewrite (evalc_eq r c), (evalc_eq r' c)
      end; cbv beta iota; try reflexivity.
    - unfold get. now rewrite (H x (or_introl eq_refl)).
    - rewrite (H ρ ρ' (agree_app_l _ _ _ _ H1)), (H0 ρ ρ' (agree_app_r _ _ _ _ H1)). reflexivity.
    - rewrite (H ρ ρ' (agree_app_l _ _ _ _ H1)), (H0 ρ ρ' (agree_app_r _ _ _ _ H1)). reflexivity.
    - now rewrite (H ρ ρ' H0).
    - rewrite (H ρ ρ' (agree_app_l _ _ _ _ H2)).
      pose proof (agree_app_r _ _ _ _ H2) as H3.
      rewrite (H0 ρ ρ' (agree_app_l _ _ _ _ H3)), (H1 ρ ρ' (agree_app_r _ _ _ _ H3)). reflexivity.
    - now rewrite (get_all_agree ρ ρ' args H).
    - rewrite (H ρ ρ' (agree_app_l _ _ _ _ H1)), (H0 ρ ρ' (agree_app_r _ _ _ _ H1)). reflexivity.
    - now rewrite (H ρ ρ' H0).
    - now rewrite (H ρ ρ' H0).
    - rewrite (H ρ ρ' (agree_app_l _ _ _ _ H1)), (H0 ρ ρ' (agree_app_r _ _ _ _ H1)). reflexivity.
    - rewrite (H ρ ρ' (agree_app_l _ _ _ _ H1)), (H0 ρ ρ' (agree_app_r _ _ _ _ H1)). reflexivity.
    - now rewrite (H ρ ρ' H0).
  Qed.

  Lemma eval_agree e ρ ρ' : agree (fv e) ρ ρ' -> eval ext op ρ e = eval ext op ρ' e.
  Proof. apply eval_agree_both. Qed.

  Lemma eval_kvs_agree kvs ρ ρ' : agree (fv_kvs kvs) ρ ρ' -> eval_kvs ext op ρ kvs = eval_kvs ext op ρ' kvs.
  Proof.
    induction kvs as [|[k e] kvs IH]; intros H; cbn [eval_kvs]; [reflexivity|].
    unfold fv_kvs in H. cbn [flat_map snd] in H.
    rewrite (eval_agree e ρ ρ' (agree_app_l _ _ _ _ H)), (IH (agree_app_r _ _ _ _ H)). reflexivity.
  Qed.

  (* ---------- environment and class-state tracking through statements ---------- *)

  Lemma lookup_dict_set_other {A} (d : list (string * A)) k k' v : k <> k' -> lookup k (dict_set d k' v) = lookup k d.
  Proof.
    intros Hne. induction d as [|[k1 v1] d IH]; cbn [dict_set lookup].
    - destruct (String.eqb_spec k k'); [contradiction|reflexivity].
    - destruct (String.eqb_spec k' k1) as [->|Hn1]; cbn [lookup].
      + destruct (String.eqb_spec k k1); [contradiction|reflexivity].
      + destruct (String.eqb_spec k k1); [reflexivity|exact IH].
  Qed.

  Definition is_init (s : sstmt) : bool := match s with SInit _ _ => true | _ => false end.

  Lemma exec_env G ρ c s G' ρ' c' x :
    exec ext op K init_len G (ρ, c) s = (G', Ok (ρ', c')) -> ~ In x (assigned1 s) -> lookup x ρ' = lookup x ρ.
  Proof.
    intros H Hx. destruct s; cbn [exec] in H; cbn [assigned1] in Hx.
    - inversion H.
    - destruct (eval ext op ρ e); inversion H; subst.
      apply lookup_dict_set_other. intros ->. apply Hx. now left.
    - destruct (evalc ext op ρ c0); inversion H; subst.
      apply lookup_dict_set_other. intros ->. apply Hx. now left.
    - destruct (eval ext op ρ out_len); [|inversion H].
      destruct (eval ext op ρ in_len); [|inversion H].
      destruct (init_len (op_value op)); [|inversion H].
      destruct a; destruct a0; inversion H; reflexivity.
    - destruct (eval ext op ρ e); inversion H; reflexivity.
    - destruct (eval ext op ρ e); inversion H; reflexivity.
    - destruct (eval ext op ρ e); inversion H; reflexivity.
    - destruct (eval_kvs ext op ρ kvs); [|inversion H]. destruct npos; [|inversion H].
      destruct (lookup "opcode" a) as [[v| | | |]|]; try (inversion H; fail).
      destruct (init_len v); [|inversion H].
      destruct (encode_cdict a (c_bits K) (zeros a0)); inversion H; reflexivity.
    - inversion H.
  Qed.

  Lemma exec_G G st s G' st' :
    exec ext op K init_len G st s = (G', Ok st') -> is_init s = false -> G' = G.
  Proof.
    destruct st as [ρ c]. intros H Hi. destruct s; cbn [exec] in H; cbn [is_init] in Hi; try discriminate.
    - destruct (eval ext op ρ e); inversion H; subst; reflexivity.
    - destruct (evalc ext op ρ c0); inversion H; subst; reflexivity.
    - destruct (eval ext op ρ e); inversion H; subst; reflexivity.
    - destruct (eval ext op ρ e); inversion H; subst; reflexivity.
    - destruct (eval ext op ρ e); inversion H; subst; reflexivity.
    - destruct (eval_kvs ext op ρ kvs); [|inversion H]. destruct npos; [|inversion H].
      destruct (lookup "opcode" a) as [[v| | | |]|]; try (inversion H; fail).
      destruct (init_len v); [|inversion H].
      destruct (encode_cdict a (c_bits K) (zeros a0)); inversion H; subst; reflexivity.
  Qed.

  Lemma run_env body : forall G ρ c G' ρ' c' x,
    run ext op K init_len G (ρ, c) body = (G', Ok (ρ', c')) -> ~ In x (assigned body) -> lookup x ρ' = lookup x ρ.
  Proof.
    induction body as [|[g s] body IH]; intros G ρ c G' ρ' c' x H Hx; cbn [run] in H.
    - inversion H; reflexivity.
    - unfold assigned in Hx. cbn [flat_map snd] in Hx.
      assert (Hx1 : ~ In x (assigned1 s)) by (intros Hi; apply Hx; apply in_or_app; now left).
      assert (Hx2 : ~ In x (assigned body)) by (intros Hi; apply Hx; apply in_or_app; now right).
      cbn [fst] in H. destruct (guard_holds ρ g).
      + destruct (exec ext op K init_len G (ρ, c) s) as [G1 [[ρ1 c1]|e]] eqn:E; [|inversion H].
        rewrite (IH _ _ _ _ _ _ _ H Hx2). eapply exec_env; eassumption.
      + eapply IH; eassumption.
  Qed.

  Lemma run_G body : forall G st G' st',
    run ext op K init_len G st body = (G', Ok st') -> forallb (fun gs => negb (is_init (snd gs))) body = true -> G' = G.
  Proof.
    induction body as [|[g s] body IH]; intros G st G' st' H Hn; cbn [run] in H.
    - inversion H; reflexivity.
    - cbn [forallb snd] in Hn. apply andb_prop in Hn as [Hs Hn]. apply negb_true_iff in Hs.
      destruct (guard_holds (fst st) g).
      + destruct (exec ext op K init_len G st s) as [G1 [st1|e]] eqn:E; [|inversion H].
        rewrite (IH _ _ _ _ H Hn). eapply exec_G; eassumption.
      + eapply IH; eassumption.
  Qed.

  Lemma run_app a : forall b G st,
    run ext op K init_len G st (a ++ b) =
    match run ext op K init_len G st a with
    | (G', Ok st') => run ext op K init_len G' st' b
    | (G', Raise e) => (G', Raise e)
    end.
  Proof.
    induction a as [|[g s] a IH]; intros b G st; cbn [run app]; [reflexivity|].
    destruct (guard_holds (fst st) g); [|apply IH].
    destruct (exec ext op K init_len G st s) as [G1 [st1|e]]; [apply IH|reflexivity].
  Qed.

  (* ---------- the recognised shape ---------- *)

  Definition no_unknown_stmt (s : sstmt) : bool := match s with SUnknown _ => false | _ => true end.
  Definition plain (gs : gstmt) : bool :=
    negb (is_init (snd gs)) && no_unknown_stmt (snd gs) && match snd gs with SBuild _ _ => false | _ => true end.

  (* body = pre ++ [([], SInit eo ei)] ++ mid ++ [([], SBuild 0 kvs)]   with pre, mid plain *)
  Record shape := mkShape { sh_pre : list gstmt; sh_eo : iexpr; sh_ei : iexpr; sh_mid : list gstmt;
                            sh_kvs : list (string * iexpr) }.

  Definition shape_body (s : shape) : list gstmt :=
    sh_pre s ++ (([], SInit (sh_eo s) (sh_ei s)) :: sh_mid s) ++ [([], SBuild 0 (sh_kvs s))].

  Definition shape_ok (s : shape) : bool :=
    forallb plain (sh_pre s) && forallb plain (sh_mid s)
    && match lookup "opcode" (sh_kvs s) with Some EOpValue => true | _ => false end.

  Lemma eval_kvs_opcode ρ kvs d : eval_kvs ext op ρ kvs = Ok d ->
    lookup "opcode" kvs = Some EOpValue -> lookup "opcode" d = Some (CInt (op_value op)).
  Proof.
    revert d; induction kvs as [|[k e] kvs IH]; intros d H Hl; [discriminate|].
    cbn [eval_kvs] in H. destruct (eval ext op ρ e) as [v|] eqn:Ev; [|discriminate].
    destruct (eval_kvs ext op ρ kvs) as [d1|] eqn:Ed; [|discriminate]. inversion H; subst d.
    cbn [lookup] in *. destruct (String.eqb "opcode" k).
    - inversion Hl; subst e. rewrite eval_eq in Ev. now inversion Ev.
    - now apply IH.
  Qed.

  (* no statement reads or writes the class-level state any more *)
  Lemma run_G_any body : forall G st G' r, run ext op K init_len G st body = (G', r) -> G' = G.
  Proof.
    induction body as [|[g s] body IH]; intros G st G' r H; cbn [run] in H; [now inversion H|].
    destruct (guard_holds (fst st) g); [|eapply IH; eassumption].
    destruct (exec ext op K init_len G st s) as [G1 [st1|e]] eqn:E.
    - assert (G1 = G).
      { destruct st as [ρ c]. destruct s; cbn [exec] in E;
          repeat match type of E with
                 | (match ?x with _ => _ end) = _ => destruct x
                 end; inversion E; reflexivity. }
      subst G1. eapply IH; eassumption.
    - assert (G1 = G).
      { destruct st as [ρ c]. destruct s; cbn [exec] in E;
          repeat match type of E with
                 | (match ?x with _ => _ end) = _ => destruct x
                 end; inversion E; reflexivity. }
      inversion H; subst. reflexivity.
  Qed.

  Theorem ctor_shape_sound (s : shape) G ρ0 G' ρ' cm n :
    shape_ok s = true -> init_len (op_value op) = Ok n ->
    run ext op K init_len G (ρ0, cmd0) (shape_body s) = (G', Ok (ρ', cm)) ->
    exists ρb d r,
      eval_kvs ext op ρb (sh_kvs s) = Ok d /\
      (forall x, ~ In x (assigned (sh_pre s ++ sh_mid s)) -> lookup x ρb = lookup x ρ0) /\
      cdb cm = Some r /\ encode_cdict d (c_bits K) (zeros n) = Ok r /\
      G' = G.
  Proof.
    intros Hok Hn Hrun. pose proof (run_G_any _ _ _ _ _ Hrun) as HGG. subst G'.
    unfold shape_ok in Hok. apply andb_prop in Hok as [Hok Hop]. apply andb_prop in Hok as [Hpre Hmid].
    assert (Hop' : lookup "opcode" (sh_kvs s) = Some EOpValue).
    { destruct (lookup "opcode" (sh_kvs s)) as [e|]; [|discriminate]. destruct e; try discriminate. reflexivity. }
    unfold shape_body in Hrun. rewrite run_app in Hrun.
    destruct (run ext op K init_len G (ρ0, cmd0) (sh_pre s)) as [G1 [[ρ1 c1]|e]] eqn:E1; [|inversion Hrun].
    pose proof (run_G_any _ _ _ _ _ E1) as HG1. subst G1.
    cbn [app run guard_holds forallb fst] in Hrun.
    destruct (exec ext op K init_len G (ρ1, c1) (SInit (sh_eo s) (sh_ei s))) as [G2 [[ρ2 c2]|e]] eqn:E2; [|inversion Hrun].
    assert (HG2 : G2 = G /\ ρ2 = ρ1).
    { cbn [exec] in E2. destruct (eval ext op ρ1 (sh_eo s)); [|inversion E2].
      destruct (eval ext op ρ1 (sh_ei s)); [|inversion E2]. rewrite Hn in E2.
      destruct a; destruct a0; inversion E2; auto. }
    destruct HG2 as [-> ->].
    rewrite run_app in Hrun.
    destruct (run ext op K init_len G (ρ1, c2) (sh_mid s)) as [G3 [[ρ3 c3]|e]] eqn:E3; [|inversion Hrun].
    pose proof (run_G_any _ _ _ _ _ E3) as HG3. subst G3.
    cbn [run guard_holds forallb fst exec] in Hrun.
    destruct (eval_kvs ext op ρ3 (sh_kvs s)) as [d|e] eqn:Ek; [|inversion Hrun].
    rewrite (eval_kvs_opcode _ _ _ Ek Hop'), Hn in Hrun.
    destruct (encode_cdict d (c_bits K) (zeros n)) as [r|e] eqn:Ee; [|inversion Hrun].
    injection Hrun as Hρ' Hcm. subst cm. exists ρ3, d, r. repeat split; try reflexivity; try assumption.
    intros x Hx.
    assert (Hx1 : ~ In x (assigned (sh_pre s))).
    { intros Hi. apply Hx. unfold assigned. rewrite flat_map_app. apply in_or_app. now left. }
    assert (Hx2 : ~ In x (assigned (sh_mid s))).
    { intros Hi. apply Hx. unfold assigned. rewrite flat_map_app. apply in_or_app. now right. }
    rewrite (run_env _ _ _ _ _ _ _ _ E3 Hx2). apply (run_env _ _ _ _ _ _ _ _ E1 Hx1).
  Qed.
End Sound.

(* ---------- from python values to codec values ---------- *)

Definition all_ints (d : list (string * cval)) : bool :=
  forallb (fun kv => match snd kv with CInt _ => true | _ => false end) d.

Definition ints (d : list (string * cval)) : list (string * value) :=
  map (fun kv => (fst kv, match snd kv with CInt n => VI n | _ => VI 0 end)) d.

Lemma encode_cdict_ints d L : forall r, all_ints d = true -> encode_cdict d L r = encode_dict (ints d) L r.
Proof.
  induction d as [|[k v] d IH]; intros r H; cbn [encode_cdict ints map encode_dict fst snd]; [reflexivity|].
  cbn [all_ints forallb snd] in H. apply andb_prop in H as [Hv H].
  destruct v; try discriminate.
  destruct (lookup k L) as [f|]; [|now apply IH].
  destruct (encode1 r f (VI n)); [now apply IH|reflexivity].
Qed.
