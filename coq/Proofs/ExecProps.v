(* Proofs/ExecProps.v — decidable statements about the REGENERATED execute() programs of both transports,
   over all 256 status bytes x raw-sense on/off x (no / stale) sense cached on the command object,
   and their lifting to quantified form and to arbitrary histories. *)
From Coq Require Import String.
From PS Require Import Base.Bytes Base.Result Model.Exec Model.Command Model.Enum Spec.SAM Gen.Opcodes Gen.Misc.
Open Scope N_scope.

Definition irun (v : N) (raw : bool) (init : ssrc) : xstate * xres :=
  iscsi_run E_SCSI_STATUS iscsi_status_prog iscsi_final v raw (mkX init SNone).
Definition srun (o : sg_outcome) (raw : bool) (init : ssrc) : xstate * xres :=
  sg_run sgio_cc_handler o raw (mkX init SNone).

Definition below (n : nat) : list N := map N.of_nat (seq 0 n).
Definition inits : list ssrc := [SNone; SCached].
Definition bools : list bool := [true; false].

Definition xres_is_return (r : xres) : bool := match r with XReturn => true | _ => false end.
Definition ssrc_eqb (a b : ssrc) : bool :=
  match a, b with SNone, SNone | SCached, SCached | STask, STask | SErr, SErr => true | _, _ => false end.

Definition exn_tag_eqb (a b : exn) : bool :=
  match a, b with
  | ConditionsMet, ConditionsMet | BusyStatus, BusyStatus | ReservationConflict, ReservationConflict
  | TaskSetFull, TaskSetFull | ACAActive, ACAActive | TaskAborted, TaskAborted | RuntimeError, RuntimeError => true
  | _, _ => false
  end.

Fixpoint lookupN {A} (k : N) (l : list (N * A)) : option A :=
  match l with [] => None | (k', v) :: l' => if k =? k' then Some v else lookupN k l' end.

(* what the property demands of one iSCSI execution *)
Definition iscsi_step_ok (v : N) (raw : bool) (init : ssrc) : bool :=
  let '(st, r) := irun v raw init in
  if v =? 0 then xres_is_return r
  else match lookupN v sam_status_error, r with
       | Some ECheckCondition, XRaiseCC s => ssrc_eqb s STask && (negb raw || ssrc_eqb (x_raw st) STask)
       | Some (EOther e), XRaise e' => exn_tag_eqb e e'
       | None, XRaise _ => true                  (* any other status: an error, never a normal return *)
       | _, _ => false
       end.

Definition iscsi_ok : bool :=
  forallb (fun v => forallb (fun raw => forallb (iscsi_step_ok v raw) inits) bools) (below 256).

(* what the property demands of one SG_IO execution *)
Definition sg_step_ok (o : sg_outcome) (raw : bool) (init : ssrc) : bool :=
  let '(st, r) := srun o raw init in
  match o, r with
  | SgReturn, XReturn => true
  | SgCheckCondition, XRaiseCC s => ssrc_eqb s SErr                                     (* surfaces as CheckCondition *)
  | SgCheckCondition, XReturn => raw && ssrc_eqb (x_raw st) SErr                        (* only with raw sense attached *)
  | SgRaises e, XRaise e' => true
  | _, _ => false
  end.
Definition sg_ok : bool :=
  forallb (fun o => forallb (fun raw => forallb (sg_step_ok o raw) inits) bools)
          [SgReturn; SgCheckCondition; SgRaises BusyStatus; SgRaises OSError].

Lemma below_In n v : v < N.of_nat n -> In v (below n).
Proof.
  intros H. unfold below. apply in_map_iff. exists (N.to_nat v). split; [lia|]. apply in_seq. lia.
Qed.

Lemma iscsi_sound : iscsi_ok = true ->
  forall v raw init, v < 256 -> In init inits -> iscsi_step_ok v raw init = true.
Proof.
  unfold iscsi_ok. intros H v raw init Hv Hi. rewrite forallb_forall in H.
  specialize (H v (below_In 256 v Hv)). rewrite forallb_forall in H.
  assert (Hr : In raw bools) by (destruct raw; cbn; auto). specialize (H raw Hr).
  rewrite forallb_forall in H. now apply H.
Qed.

(* ---- histories: a command object may be executed again; what an earlier execution left in cmd.sense is,
   for the next execution, a stale cached value ---- *)
Definition age (s : ssrc) : ssrc := match s with SNone => SNone | _ => SCached end.

Fixpoint iscsi_history (cmd_sense : ssrc) (h : list (N * bool)) : list (N * bool * xres) :=
  match h with
  | [] => []
  | (v, raw) :: h' =>
      let '(st, r) := irun v raw (age cmd_sense) in (v, raw, r) :: iscsi_history (x_sense st) h'
  end.

Lemma age_in s : In (age s) inits.
Proof. destruct s; cbn; auto. Qed.

Theorem history_sound : iscsi_ok = true -> forall h s0,
  Forall (fun vr => fst vr < 256) h ->
  Forall (fun vrr => let '(v, raw, r) := vrr in
            (r = XReturn -> v = 0) /\ (v = 2 -> r = XRaiseCC STask)) (iscsi_history s0 h).
Proof.
  intros Hok h. induction h as [|[v raw] h IH]; intros s0 Hb; cbn [iscsi_history]; [constructor|].
  inversion Hb as [|? ? Hv Hb']; subst. cbn [fst] in Hv.
  pose proof (iscsi_sound Hok v raw (age s0) Hv (age_in s0)) as Hs. unfold iscsi_step_ok in Hs.
  destruct (irun v raw (age s0)) as [st r] eqn:E. constructor; [|apply IH; assumption].
  split.
  - intros ->. destruct (N.eqb_spec v 0); [assumption|].
    destruct (lookupN v sam_status_error) as [se|]; [destruct se|]; discriminate Hs.
  - intros ->. assert (E0 : (2 =? 0) = false) by reflexivity. rewrite E0 in Hs.
    assert (E1 : lookupN 2 sam_status_error = Some ECheckCondition) by reflexivity. rewrite E1 in Hs.
    destruct r as [|s|e]; try discriminate Hs. apply andb_prop in Hs as [Hs _].
    destruct s; try discriminate Hs. reflexivity.
Qed.
