(* Proofs/FacadeState.v — the state of a facade object: whatever sequence of attach / re-attach / block-size stores /
   command calls a program performs, the block size the command methods hand to the constructors is the one stored
   last.  The stores of every function of class SCSI are REGENERATED (Gen/FacadeTbl.facade_state_writes). *)
From Coq Require Import String.
From PS Require Import Base.Bytes Base.Result Model.Converter Model.Ctor Model.Facade.
Set Default Timeout 60.
Open Scope string_scope.

Lemma lookup_set_same {A} (d : list (string * A)) k v : lookup k (dict_set d k v) = Some v.
Proof. induction d as [|[k' v'] d IH]; cbn; [now rewrite String.eqb_refl|].
  destruct (String.eqb_spec k k') as [->|Hn]; cbn; [now rewrite String.eqb_refl|].
  destruct (String.eqb_spec k k'); [contradiction|exact IH]. Qed.

Lemma lookup_set_other {A} (d : list (string * A)) k k' v : k <> k' -> lookup k (dict_set d k' v) = lookup k d.
Proof. intros Hn. induction d as [|[k2 v2] d IH]; cbn.
  - destruct (String.eqb_spec k k'); [contradiction|reflexivity].
  - destruct (String.eqb_spec k' k2) as [->|Hn2]; cbn.
    + destruct (String.eqb_spec k k2); [contradiction|reflexivity].
    + destruct (String.eqb_spec k k2); [reflexivity|exact IH]. Qed.

Lemma lookup_filter_other {A} (d : list (string * A)) k k' : k <> k' ->
  lookup k (filter (fun kv => negb (String.eqb (fst kv) k')) d) = lookup k d.
Proof. intros Hn. induction d as [|[k2 v2] d IH]; cbn; [reflexivity|].
  destruct (String.eqb_spec k2 k') as [->|Hn2]; cbn.
  - destruct (String.eqb_spec k k'); [contradiction|exact IH].
  - destruct (String.eqb_spec k k2); [reflexivity|exact IH]. Qed.

Definition untouched (ws : list (string * sx)) (a : string) : bool := forallb (fun w => negb (String.eqb (fst w) a)) ws.

Lemma apply_untouched ws a args st : untouched ws a = true -> lookup a (apply_writes ws args st) = lookup a st.
Proof. revert st. induction ws as [|[b e] ws IH]; intros st H; cbn in *; [reflexivity|].
  apply andb_prop in H. destruct H as [Hb Hr]. rewrite IH by exact Hr.
  destruct (String.eqb_spec b a) as [->|Hn]; [discriminate|].
  destruct (sx_eval st args e); [apply lookup_set_other|apply lookup_filter_other]; congruence. Qed.

Lemma filter_nil_untouched ws a : filter (fun w : string * sx => String.eqb (fst w) a) ws = [] -> untouched ws a = true.
Proof. induction ws as [|[b e] ws IH]; cbn; [reflexivity|]. destruct (String.eqb b a); [discriminate|]. exact IH. Qed.

Lemma apply_stores_param ws a p args st v : stores_param ws a p = true -> lookup p args = Some v ->
  lookup a (apply_writes ws args st) = Some v.
Proof. unfold stores_param. revert st. induction ws as [|[b e] ws IH]; intros st H Hp; cbn in *; [discriminate|].
  destruct (String.eqb_spec b a) as [->|Hn].
  - destruct e as [q| |]; try discriminate.
    destruct (filter (fun w => String.eqb (fst w) a) ws) eqn:Hf; [|discriminate].
    apply String.eqb_eq in H. subst q. rewrite apply_untouched by (apply filter_nil_untouched; exact Hf).
    cbn. rewrite Hp. apply lookup_set_same.
  - apply IH; assumption. Qed.

Lemma no_store_untouched ws a : no_store ws a = true -> untouched ws a = true.
Proof. unfold no_store, untouched. induction ws as [|w ws IH]; cbn; [reflexivity|]. intros H. apply andb_prop in H. destruct H as [H1 H2].
  apply andb_prop in H1. destruct H1 as [H1 _]. rewrite H1. exact (IH H2). Qed.

Lemma lookup_In {A} k (l : list (string * A)) v : lookup k l = Some v -> In (k, v) l.
Proof. induction l as [|[k' v'] l IH]; cbn; [discriminate|]. destruct (String.eqb_spec k k') as [->|Hn]; [intros [= ->]; now left|right; auto]. Qed.

Definition op_ok (o : fop) : bool :=
  match o with FoMethod n => negb (String.eqb n "__init__") && negb (String.eqb n "blocksize.setter") | _ => true end.

Lemma other_function_keeps tbl name a : blocksize_state_ok tbl (SxAttr a) = true -> name <> "__init__" -> name <> "blocksize.setter" ->
  untouched (writes_of tbl name) a = true.
Proof. intros OK H1 H2. unfold blocksize_state_ok in OK. apply andb_prop in OK. destruct OK as [_ H].
  unfold writes_of. destruct (lookup name tbl) as [ws|] eqn:Hl; [|reflexivity].
  rewrite forallb_forall in H. specialize (H _ (lookup_In _ _ _ Hl)). cbn [fst snd] in H.
  destruct (String.eqb_spec name "__init__"); [contradiction|]. destruct (String.eqb_spec name "blocksize.setter"); [contradiction|].
  cbn in H. now apply no_store_untouched. Qed.

Theorem blocksize_is_last_stored tbl get : blocksize_state_ok tbl get = true ->
  forall ops st, forallb op_ok ops = true ->
  blocksize_seen get (fold_left (fstep tbl) ops st) = last_blocksize (blocksize_seen get st) ops.
Proof.
  intros OK. destruct get as [|a|]; try (unfold blocksize_state_ok in OK; discriminate).
  assert (Hi : stores_param (writes_of tbl "__init__") a "blocksize" = true /\ stores_param (writes_of tbl "blocksize.setter") a "value" = true).
  { pose proof OK as OK'. unfold blocksize_state_ok in OK'. apply andb_prop in OK'. destruct OK' as [H _]. apply andb_prop in H. exact H. }
  destruct Hi as [Hinit Hset].
  induction ops as [|o ops IH]; intros st Hok; [reflexivity|]. cbn [fold_left last_blocksize forallb] in *.
  apply andb_prop in Hok. destruct Hok as [Ho Hr]. rewrite IH by exact Hr. clear IH.
  unfold blocksize_seen, sx_eval.
  destruct o as [dev bs|dev|v|name]; cbn [fstep].
  - erewrite apply_stores_param; [reflexivity|exact Hinit|]. cbn. reflexivity.
  - rewrite apply_untouched; [reflexivity|]. apply other_function_keeps; [exact OK|discriminate|discriminate].
  - erewrite apply_stores_param; [reflexivity|exact Hset|]. cbn. reflexivity.
  - cbn in Ho. apply andb_prop in Ho. destruct Ho as [H1 H2].
    rewrite apply_untouched; [reflexivity|]. apply other_function_keeps; [exact OK| |].
    + intros ->. discriminate. + intros ->. discriminate.
Qed.
