(* Proofs/PyParsers.v — exactness of the REGENERATED decoder bodies (Gen/PyFuncs.v) under the semantics of Model/Py.v:
   a response made of a header, any number of descriptors and any trailing bytes, whose length field has the value the
   standard prescribes, is decoded into exactly those descriptors, whole and in order. *)
From Coq Require Import String ZArith List Bool Lia.
From PS Require Import Base.Bytes Base.Result Model.Converter Model.Py Proofs.FacadeState Proofs.PyLemmas Gen.Tables Gen.PyFuncs.
Import ListNotations.
Set Default Timeout 120.
Open Scope string_scope.
Open Scope nat_scope.

Local Arguments ba_to_int : simpl never.
Local Arguments py_slice : simpl never.
Local Arguments decode_bits : simpl never.
Local Arguments decode_total : simpl never.
Local Arguments dict_update : simpl never.
Local Arguments dict_of_decoded : simpl never.
Local Arguments run : simpl never.
Local Arguments call_with : simpl never.
Local Arguments Z.add : simpl never.
Local Arguments Z.of_N : simpl never.
Local Arguments Z.of_nat : simpl never.
Local Arguments Z.eqb : simpl never.
Local Arguments length : simpl never.
Local Arguments app : simpl never.
Local Arguments concat : simpl never.
Local Arguments map : simpl never.
Local Arguments clip : simpl never.

Ltac lk := repeat (rewrite lookup_set_same || rewrite lookup_set_other by (let H := fresh in intro H; discriminate H)).
Ltac step := rewrite exec_block_cons; cbn [exec exec_simple eval eval_list eval_opt]; lk.
(* the same on an environment whose shape is known (before the first loop) *)
Ltac cstep := rewrite exec_block_cons;
  cbn [exec exec_simple eval eval_list eval_opt lookup dict_set with_var String.eqb Ascii.eqb Bool.eqb slice_eval opt_int as_int bin_eval update_at set_item index_eval].

(* ---------------------------------------------------------------- GET LBA STATUS *)
Definition GLS := "scsi_cdb_getlbastatus.GetLBAStatus.unmarshall_datain".
Definition T_gls := T_scsi_cdb_getlbastatus__GetLBAStatus___datain_bits.
Definition gls_desc (d : bytes) : pv := PDict (dict_of_decoded (decode_total d T_gls)).

Lemma gls_lookup : lookup GLS py_program = Some PF_scsi_cdb_getlbastatus_GetLBAStatus_unmarshall_datain.
Proof. vm_compute. reflexivity. Qed.
Lemma gls_table : lookup "scsi_cdb_getlbastatus.GetLBAStatus._datain_bits" all_tables = Some T_gls.
Proof. vm_compute. reflexivity. Qed.
Lemma gls_wf : masks_nonzero T_gls = true /\ names_distinct (map fst T_gls) = true.
Proof. vm_compute. split; reflexivity. Qed.

Definition gls_inv (descs : list bytes) (ds : list bytes) (ρ : env) : Prop :=
  exists done, descs = (done ++ ds)%list /\ Forall (fun d => length d = 16) ds /\
    lookup "_data" ρ = Some (PBytes (concat ds)) /\
    lookup "_lbas" ρ = Some (PList (map gls_desc done)) /\
    lookup "result" ρ = Some (PDict []).

Definition while_body (f : fundef) (n : nat) : list st :=
  match nth n (fn_body f) SPass with SWhile _ body => body | _ => [] end.
Definition while_cond (f : fundef) (n : nat) : ex :=
  match nth n (fn_body f) SPass with SWhile c _ => c | _ => EConst PNone end.

Lemma gls_iter descs call again d ds ρ : gls_inv descs (d :: ds) ρ ->
  exists ρ', exec_block all_tables call again (while_body PF_scsi_cdb_getlbastatus_GetLBAStatus_unmarshall_datain 3) ρ = ONorm ρ'
    /\ gls_inv descs ds ρ'.
Proof.
  intros (done & Hsplit & Hall & Hdata & Hlbas & Hres). inversion Hall as [|? ? Hd Hall']; subst.
  cbn [while_body fn_body nth PF_scsi_cdb_getlbastatus_GetLBAStatus_unmarshall_datain].
  step. step. rewrite Hdata. cbn [slice_eval opt_int as_int]. rewrite gls_table.
  change (concat (d :: ds)) with (d ++ concat ds)%list. rewrite py_slice_prefix by (rewrite Hd; reflexivity).
  rewrite decode_bits_total by apply gls_wf. unfold with_var. lk.
  rewrite dict_update_nil by (unfold dict_of_decoded; rewrite map_map; cbn [fst]; rewrite decode_total_names by apply gls_wf; apply gls_wf).
  step. unfold with_var. lk. rewrite Hlbas. cbn [update_at].
  step. rewrite Hdata. cbn [slice_eval opt_int as_int].
  change (concat (d :: ds)) with (d ++ concat ds)%list. rewrite py_slice_suffix by (rewrite Hd; reflexivity).
  rewrite exec_block_nil. eexists. split; [reflexivity|].
  exists (done ++ [d])%list. repeat split; lk.
  - rewrite <- app_assoc. reflexivity.
  - exact Hall'.
  - reflexivity.
  - rewrite map_app. reflexivity.
  - exact Hres.
Qed.

Lemma gls_cond descs call ds ρ : gls_inv descs ds ρ ->
  exists v, eval call ρ (while_cond PF_scsi_cdb_getlbastatus_GetLBAStatus_unmarshall_datain 3) = Ok v /\
            truthy v = match ds with [] => false | _ => true end.
Proof.
  intros (done & Hsplit & Hall & Hdata & Hlbas & Hres).
  cbn [while_cond fn_body nth PF_scsi_cdb_getlbastatus_GetLBAStatus_unmarshall_datain eval]. rewrite Hdata. cbn [len_eval].
  eexists. split; [reflexivity|]. cbn [truthy]. destruct ds as [|d ds].
  - reflexivity.
  - inversion Hall as [|? ? Hd _]; subst. change (concat (d :: ds)) with (d ++ concat ds)%list. rewrite app_length, Hd.
    destruct (Z.eqb_spec (Z.of_nat (16 + length (concat ds))) 0); [lia|reflexivity].
Qed.

(* GET LBA STATUS: header (8 bytes) + n descriptors of 16 bytes + anything; PARAMETER DATA LENGTH = 4 + 16 n (it counts what
   follows the field): exactly the n descriptors are decoded, each with the library's table, nothing of the trailing bytes *)
Theorem getlbastatus_exact : forall (hdr : bytes) (descs : list bytes) (trail : bytes) f,
  length hdr = 8 -> Forall (fun d => length d = 16) descs ->
  (Z.of_N (ba_to_int (firstn 4 hdr)) + 4 = Z.of_nat (8 + length (concat descs)))%Z ->
  length descs + 2 <= f ->
  call_fun all_tables py_program f GLS [PBytes (hdr ++ concat descs ++ trail)%list] =
  Ok (PDict [("lbas", PList (map gls_desc descs))]).
Proof.
  intros hdr descs trail f Hh Hall Hlen Hf.
  unfold call_fun, call_with. rewrite gls_lookup. cbn [fn_params bind_params PF_scsi_cdb_getlbastatus_GetLBAStatus_unmarshall_datain].
  destruct f as [|f]; [lia|]. rewrite run_S, exec_if. cbn [eval truthy].
  cbn [fn_body PF_scsi_cdb_getlbastatus_GetLBAStatus_unmarshall_datain].
  cstep. cstep. cstep.
  rewrite py_slice_firstn by (rewrite Hh; lia). change (Z.to_nat 4) with 4.
  rewrite (py_slice_mid hdr (concat descs) trail) by (rewrite ?Hh; lia || reflexivity).
  rewrite exec_block_cons, <- run_S.
  pose proof (while_consumes all_tables py_program _ _ _ (gls_inv descs) 0
              (fun f ds ρ H => gls_cond descs _ ds ρ H) (fun f d ds ρ _ H => gls_iter descs _ _ d ds ρ H) descs f
              [("data", PBytes (hdr ++ concat descs ++ trail)%list); ("result", PDict []); ("_data", PBytes (concat descs)); ("_lbas", PList [])]) as W.
  cbn [while_cond while_body fn_body nth PF_scsi_cdb_getlbastatus_GetLBAStatus_unmarshall_datain] in W.
  destruct W as (ρ' & W & (done & Hsplit & _ & _ & Hlbas & Hres)); [lia| |].
  { exists []. repeat split; try reflexivity. exact Hall. }
  rewrite W. clear W.
  rewrite app_nil_r in Hsplit. subst done.
  step. unfold with_var. rewrite Hres, Hlbas. cbn [update_at dict_update fold_left dict_set fst snd].
  step. cbn [truthy]. reflexivity.
Qed.

(* ---------------------------------------------------------------- PERSISTENT RESERVE IN / READ KEYS *)
Definition PRK := "scsi_cdb_persistentreservein.PersistentReserveInReadKeys.unmarshall_datain".
Notation PF_prk := PF_scsi_cdb_persistentreservein_PersistentReserveInReadKeys_unmarshall_datain.
Definition prk_key (d : bytes) : pv := PInt (Z.of_N (ba_to_int d)).

Lemma prk_lookup : lookup PRK py_program = Some PF_prk.
Proof. vm_compute. reflexivity. Qed.

Definition prk_inv (descs : list bytes) (res : pv) (ds : list bytes) (ρ : env) : Prop :=
  exists done, descs = (done ++ ds)%list /\ Forall (fun d => length d = 8) ds /\
    lookup "data" ρ = Some (PBytes (concat ds)) /\
    lookup "keys" ρ = Some (PList (map prk_key done)) /\
    lookup "result" ρ = Some res.

Lemma prk_iter descs res call again d ds ρ : prk_inv descs res (d :: ds) ρ ->
  exists ρ', exec_block all_tables call again (while_body PF_prk 5) ρ = ONorm ρ' /\ prk_inv descs res ds ρ'.
Proof.
  intros (done & Hsplit & Hall & Hdata & Hkeys & Hres). inversion Hall as [|? ? Hd Hall']; subst.
  cbn [while_body fn_body nth PF_prk].
  step. rewrite Hdata. cbn [slice_eval opt_int as_int].
  change (concat (d :: ds)) with (d ++ concat ds)%list. rewrite py_slice_prefix by (rewrite Hd; reflexivity).
  step. rewrite Hdata. cbn [slice_eval opt_int as_int].
  change (concat (d :: ds)) with (d ++ concat ds)%list. rewrite py_slice_suffix by (rewrite Hd; reflexivity).
  step. unfold with_var. lk. rewrite Hkeys. cbn [update_at].
  rewrite exec_block_nil. eexists. split; [reflexivity|].
  exists (done ++ [d])%list. repeat split; lk.
  - rewrite <- app_assoc. reflexivity.
  - exact Hall'.
  - reflexivity.
  - rewrite map_app. reflexivity.
  - exact Hres.
Qed.

Lemma prk_cond descs res call ds ρ : prk_inv descs res ds ρ ->
  exists v, eval call ρ (while_cond PF_prk 5) = Ok v /\ truthy v = match ds with [] => false | _ => true end.
Proof.
  intros (done & Hsplit & Hall & Hdata & Hkeys & Hres).
  cbn [while_cond fn_body nth PF_prk eval]. rewrite Hdata. cbn [len_eval].
  eexists. split; [reflexivity|]. cbn [truthy]. destruct ds as [|d ds]; [reflexivity|].
  inversion Hall as [|? ? Hd _]; subst. change (concat (d :: ds)) with (d ++ concat ds)%list. rewrite app_length, Hd.
  destruct (Z.eqb_spec (Z.of_nat (8 + length (concat ds))) 0); [lia|reflexivity].
Qed.

(* READ KEYS: header (PRGENERATION, ADDITIONAL LENGTH) + n reservation keys of 8 bytes + anything; ADDITIONAL LENGTH = 8 n *)
Theorem prin_read_keys_exact : forall (hdr : bytes) (descs : list bytes) (trail : bytes) f,
  length hdr = 8 -> Forall (fun d => length d = 8) descs ->
  Z.of_N (ba_to_int (skipn 4 hdr)) = Z.of_nat (length (concat descs)) ->
  length descs + 2 <= f ->
  call_fun all_tables py_program f PRK [PBytes (hdr ++ concat descs ++ trail)%list] =
  Ok (PDict [("pr_generation", PInt (Z.of_N (ba_to_int (firstn 4 hdr)))); ("reservation_keys", PList (map prk_key descs))]).
Proof.
  intros hdr descs trail f Hh Hall Hlen Hf.
  unfold call_fun, call_with. rewrite prk_lookup. cbn [fn_params bind_params PF_prk].
  destruct f as [|f]; [lia|]. rewrite run_S, exec_if. cbn [eval truthy]. cbn [fn_body PF_prk].
  cstep. cstep. cstep. cstep. cstep.
  rewrite py_slice_firstn by (rewrite Hh; lia). change (Z.to_nat 4) with 4.
  rewrite (py_slice_tail_of_prefix hdr _ 4 8) by (rewrite ?Hh; lia || reflexivity). change (Z.to_nat 4) with 4.
  rewrite (py_slice_mid hdr (concat descs) trail) by (rewrite ?Hh; lia || reflexivity).
  rewrite exec_block_cons, <- run_S.
  pose proof (while_consumes all_tables py_program _ _ _ (prk_inv descs (PDict [("pr_generation", PInt (Z.of_N (ba_to_int (firstn 4 hdr))))])) 0
              (fun f ds ρ H => prk_cond descs _ _ ds ρ H) (fun f d ds ρ _ H => prk_iter descs _ _ _ d ds ρ H) descs f
              [("data", PBytes (concat descs)); ("result", PDict [("pr_generation", PInt (Z.of_N (ba_to_int (firstn 4 hdr))))]);
               ("additional_length", PInt (Z.of_N (ba_to_int (skipn 4 hdr)))); ("keys", PList [])]) as W.
  cbn [while_cond while_body fn_body nth PF_prk] in W.
  destruct W as (ρ' & W & (done & Hsplit & _ & _ & Hkeys & Hres)); [lia| |].
  { exists []. repeat split; try reflexivity. exact Hall. }
  rewrite W. clear W. rewrite app_nil_r in Hsplit. subst done.
  step. unfold with_var. rewrite Hkeys, Hres. cbn [update_at set_item dict_set String.eqb Ascii.eqb Bool.eqb].
  step. reflexivity.
Qed.

(* ---------------------------------------------------------------- REPORT TARGET PORT GROUPS (nested descriptor lists) *)
Definition RTPG := "scsi_cdb_report_target_port_groups.ReportTargetPortGroups.unmarshall_datain".
Notation PF_rtpg := PF_scsi_cdb_report_target_port_groups_ReportTargetPortGroups_unmarshall_datain.
Definition T_tpgd := T_scsi_cdb_report_target_port_groups__ReportTargetPortGroups___tpgd_bits.
Definition T_ext := T_scsi_cdb_report_target_port_groups__ReportTargetPortGroups___ext_hdr_bits.

Record tpg := mkTpg { g_hdr : bytes; g_ports : list bytes }.
Definition tpg_fields (g : tpg) : list (string * pv) := dict_of_decoded (decode_total (g_hdr g) T_tpgd).
(* a conformant target port group descriptor: 8 header bytes, 4 bytes per target port, TARGET PORT COUNT = number of ports *)
Definition tpg_ok (g : tpg) : Prop :=
  length (g_hdr g) = 8 /\ Forall (fun p => length p = 4) (g_ports g) /\
  lookup "target_port_count" (tpg_fields g) = Some (PInt (Z.of_nat (length (g_ports g)))).
Definition tpg_bytes (g : tpg) : bytes := (g_hdr g ++ concat (g_ports g))%list.
Definition port_dict (p : bytes) : pv := PDict [("relative_target_port_id", PInt (Z.of_N (ba_to_int (skipn 2 p))))].
Definition tpg_dict (g : tpg) : pv := PDict (tpg_fields g ++ [("target_ports", PList (map port_dict (g_ports g)))])%list.

Lemma rtpg_lookup : lookup RTPG py_program = Some PF_rtpg.
Proof. vm_compute. reflexivity. Qed.
Lemma rtpg_tables :
  lookup "scsi_cdb_report_target_port_groups.ReportTargetPortGroups._tpgd_bits" all_tables = Some T_tpgd /\
  lookup "scsi_cdb_report_target_port_groups.ReportTargetPortGroups._ext_hdr_bits" all_tables = Some T_ext.
Proof. vm_compute. split; reflexivity. Qed.
Lemma rtpg_wf : masks_nonzero T_tpgd = true /\ names_distinct (map fst T_tpgd) = true /\ fields_within 8 T_tpgd = true /\
                existsb (String.eqb "target_ports") (map fst T_tpgd) = false /\
                masks_nonzero T_ext = true /\ names_distinct (map fst T_ext) = true /\ fields_within 4 T_ext = true.
Proof. vm_compute. repeat split; reflexivity. Qed.

Lemma tpg_fields_names g : map fst (tpg_fields g) = map fst T_tpgd.
Proof. unfold tpg_fields, dict_of_decoded. rewrite map_map. cbn [fst]. apply decode_total_names, rtpg_wf. Qed.

(* inner loop: the target port descriptors of one group *)
Definition rtpg_inner (g : tpg) (rest : bytes) (acc res : pv) (ps : list bytes) (ρ : env) : Prop :=
  exists done, g_ports g = (done ++ ps)%list /\ Forall (fun p => length p = 4) ps /\
    lookup "_data" ρ = Some (PBytes (concat ps ++ rest)%list) /\
    lookup "_tp_descriptors" ρ = Some (PList (map port_dict done)) /\
    lookup "_tpgd" ρ = Some (PDict (tpg_fields g)) /\
    lookup "_tpg_descriptors" ρ = Some acc /\ lookup "result" ρ = Some res.

Notation rtpg_outer_body := (while_body PF_rtpg 4).
Definition rtpg_inner_loop : st := nth 4 rtpg_outer_body SPass.
Definition rtpg_inner_cond : ex := match rtpg_inner_loop with SWhile c _ => c | _ => EConst PNone end.
Definition rtpg_inner_body : list st := match rtpg_inner_loop with SWhile _ b => b | _ => [] end.

Lemma rtpg_inner_iter g rest acc res call again p ps ρ : rtpg_inner g rest acc res (p :: ps) ρ ->
  exists ρ', exec_block all_tables call again rtpg_inner_body ρ = ONorm ρ' /\ rtpg_inner g rest acc res ps ρ'.
Proof.
  intros (done & Hsplit & Hall & Hdata & Htp & Hg & Hacc & Hres). inversion Hall as [|? ? Hp Hall']; subst.
  cbn [rtpg_inner_body rtpg_inner_loop while_body fn_body nth PF_rtpg].
  step. step. rewrite Hdata. cbn [slice_eval opt_int as_int].
  change (concat (p :: ps)) with (p ++ concat ps)%list. rewrite <- app_assoc.
  rewrite (py_slice_tail_of_prefix p _ 2 4) by (rewrite ?Hp; lia || reflexivity). change (Z.to_nat 2) with 2.
  unfold with_var. lk. cbn [update_at set_item dict_set].
  step. unfold with_var. lk. rewrite Htp. cbn [update_at].
  step. rewrite Hdata. cbn [slice_eval opt_int as_int].
  change (concat (p :: ps)) with (p ++ concat ps)%list. rewrite <- app_assoc. rewrite py_slice_suffix by (rewrite Hp; reflexivity).
  rewrite exec_block_nil. eexists. split; [reflexivity|].
  exists (done ++ [p])%list. repeat split; lk; try assumption.
  - rewrite Hsplit, <- app_assoc. reflexivity.
  - reflexivity.
  - rewrite map_app. reflexivity.
Qed.

Lemma rtpg_inner_cond_ok g rest acc res call ps ρ : tpg_ok g -> rtpg_inner g rest acc res ps ρ ->
  exists v, eval call ρ rtpg_inner_cond = Ok v /\ truthy v = match ps with [] => false | _ => true end.
Proof.
  intros (_ & _ & Hcount) (done & Hsplit & Hall & Hdata & Htp & Hg & Hacc & Hres).
  cbn [rtpg_inner_cond rtpg_inner_loop while_body fn_body nth PF_rtpg eval]. rewrite Hdata. cbn [len_eval truthy].
  destruct (Z.eqb_spec (Z.of_nat (length (concat ps ++ rest)%list)) 0) as [E|E]; cbn [negb].
  - eexists. split; [reflexivity|]. cbn [truthy]. rewrite E. cbn. destruct ps as [|p ps]; [reflexivity|].
    inversion Hall as [|? ? Hp _]; subst. change (concat (p :: ps)) with (p ++ concat ps)%list in E. rewrite !app_length, Hp in E. lia.
  - rewrite Htp, Hg. cbn [len_eval index_eval]. rewrite Hcount. cbn [cmp_eval as_int]. eexists. split; [reflexivity|]. cbn [truthy].
    rewrite map_length, Hsplit, app_length.
    assert (Hl : length ps = match ps with [] => 0 | _ :: t => S (length t) end) by (destruct ps; reflexivity).
    destruct (Z.ltb_spec (Z.of_nat (length done)) (Z.of_nat (length done + length ps))) as [L|L]; destruct ps; try reflexivity; lia.
Qed.

Definition rtpg_inv (groups : list tpg) (res : pv) (gs : list tpg) (ρ : env) : Prop :=
  exists done, groups = (done ++ gs)%list /\ Forall tpg_ok gs /\
    lookup "_data" ρ = Some (PBytes (concat (map tpg_bytes gs))) /\
    lookup "_tpg_descriptors" ρ = Some (PList (map tpg_dict done)) /\
    lookup "result" ρ = Some res.

Lemma rtpg_iter groups res f g gs ρ : length (g_ports g) <= f -> rtpg_inv groups res (g :: gs) ρ ->
  exists ρ', exec_block all_tables (call_with py_program (run all_tables py_program f)) (run all_tables py_program f) rtpg_outer_body ρ = ONorm ρ'
    /\ rtpg_inv groups res gs ρ'.
Proof.
  intros Hf (done & Hsplit & Hall & Hdata & Hacc & Hres). inversion Hall as [|? ? Hg Hall']; subst.
  pose proof Hg as (Hh & Hports & Hcount).
  cbn [while_body fn_body nth PF_rtpg].
  step. step. rewrite Hdata. rewrite (proj1 rtpg_tables).
  change (concat (map tpg_bytes (g :: gs))) with (tpg_bytes g ++ concat (map tpg_bytes gs))%list. unfold tpg_bytes at 1. rewrite <- !app_assoc.
  rewrite decode_bits_total by apply rtpg_wf. rewrite decode_total_prefix by (rewrite Hh; apply rtpg_wf).
  unfold with_var. lk. fold (tpg_fields g).
  assert (Hn : names_distinct (map fst (tpg_fields g)) = true) by (rewrite tpg_fields_names; apply rtpg_wf).
  rewrite (dict_update_nil _ Hn).
  step. rewrite Hdata.
  change (concat (map tpg_bytes (g :: gs))) with (tpg_bytes g ++ concat (map tpg_bytes gs))%list. unfold tpg_bytes at 1. rewrite <- !app_assoc.
  cbn [slice_eval opt_int as_int]. rewrite py_slice_suffix by (rewrite Hh; reflexivity).
  step.
  (* the inner loop *)
  rewrite exec_block_cons, <- run_S.
  match goal with |- context [run _ _ (S f) _ ?ρ0] =>
    pose proof (while_consumes all_tables py_program rtpg_inner_cond rtpg_inner_body _
                  (rtpg_inner g (concat (map tpg_bytes gs)) (PList (map tpg_dict done)) res) 0
                  (fun f ps ρ H => rtpg_inner_cond_ok g _ _ _ _ ps ρ Hg H)
                  (fun f p ps ρ _ H => rtpg_inner_iter g _ _ _ _ _ p ps ρ H) (g_ports g) f ρ0) as W
  end.
  cbn [rtpg_inner_cond rtpg_inner_body rtpg_inner_loop while_body fn_body nth PF_rtpg] in W.
  destruct W as (ρ1 & W & (done' & Hsplit' & _ & Hdata1 & Htp1 & Hg1 & Hacc1 & Hres1)); [lia| |].
  { exists []. repeat split; lk; try assumption; try reflexivity. }
  rewrite W. clear W. rewrite app_nil_r in Hsplit'. subst done'.
  step. unfold with_var. rewrite Htp1, Hg1. cbn [update_at set_item].
  rewrite (dict_set_fresh (tpg_fields g)) by (apply lookup_not_in; rewrite tpg_fields_names; apply rtpg_wf).
  step. unfold with_var. lk. rewrite Hacc1. cbn [update_at].
  rewrite exec_block_nil. eexists. split; [reflexivity|].
  exists (done ++ [g])%list. repeat split; lk; try assumption.
  - rewrite <- app_assoc. reflexivity.
  - rewrite map_app. reflexivity.
Qed.

Lemma rtpg_cond groups res call gs ρ : rtpg_inv groups res gs ρ ->
  exists v, eval call ρ (while_cond PF_rtpg 4) = Ok v /\ truthy v = match gs with [] => false | _ => true end.
Proof.
  intros (done & Hsplit & Hall & Hdata & Hacc & Hres).
  cbn [while_cond fn_body nth PF_rtpg eval]. rewrite Hdata. cbn [len_eval].
  eexists. split; [reflexivity|]. cbn [truthy]. destruct gs as [|g gs]; [reflexivity|].
  inversion Hall as [|? ? (Hh & _ & _) _]; subst.
  change (concat (map tpg_bytes (g :: gs))) with (tpg_bytes g ++ concat (map tpg_bytes gs))%list. unfold tpg_bytes at 1.
  rewrite !app_length, Hh. destruct (Z.eqb_spec (Z.of_nat (8 + length (concat (g_ports g)) + length (concat (map tpg_bytes gs)))) 0); [lia|reflexivity].
Qed.

Lemma ports_bound (done : list tpg) g gs : tpg_ok g -> length (g_ports g) <= length (concat (map tpg_bytes (done ++ g :: gs))).
Proof.
  intros (_ & Hp & _). rewrite map_app, concat_app, app_length.
  change (concat (map tpg_bytes (g :: gs))) with ((g_hdr g ++ concat (g_ports g)) ++ concat (map tpg_bytes gs))%list.
  rewrite !app_length. pose proof (concat_len4 _ Hp). lia.
Qed.

(* from `_tpg_descriptors = []` to the end of the function *)
Lemma rtpg_tail groups r f ρ :
  Forall tpg_ok groups -> length (concat (map tpg_bytes groups)) + length groups + 1 <= f ->
  lookup "_data" ρ = Some (PBytes (concat (map tpg_bytes groups))) -> lookup "result" ρ = Some (PDict r) ->
  exec_block all_tables (call_with py_program (run all_tables py_program f)) (run all_tables py_program f) (skipn 3 (fn_body PF_rtpg)) ρ =
  ORet (PDict (dict_update r [("target_port_group_descriptors", PList (map tpg_dict groups))])).
Proof.
  intros Hall Hf Hdata Hres. cbn [skipn fn_body PF_rtpg].
  step. rewrite exec_block_cons, <- run_S.
  match goal with |- context [run _ _ (S f) _ ?ρ0] =>
    pose proof (while_consumes all_tables py_program (while_cond PF_rtpg 4) (while_body PF_rtpg 4) tpg (rtpg_inv groups (PDict r)) (length (concat (map tpg_bytes groups)))
                  (fun f gs ρ H => rtpg_cond groups _ _ gs ρ H)) as W;
    specialize (W (fun f g gs ρ Hm H => rtpg_iter groups _ f g gs ρ
                     ltac:(destruct H as (dn & Hs & Ha & _); rewrite Hs in Hm; inversion Ha; subst; eapply Nat.le_trans; [apply ports_bound; eassumption|exact Hm]) H)
                  groups f ρ0)
  end.
  cbn [while_cond while_body fn_body nth PF_rtpg] in W.
  destruct W as (ρ1 & W & (done & Hsplit & _ & _ & Hacc1 & Hres1)); [lia| |].
  { exists []. repeat split; lk; try assumption; reflexivity. }
  rewrite W. clear W. rewrite app_nil_r in Hsplit. subst done.
  step. unfold with_var. rewrite Hacc1, Hres1. cbn [update_at].
  step. reflexivity.
Qed.

(* REPORT TARGET PORT GROUPS, length-only header format: RETURN DATA LENGTH + n target port group descriptors, each with its
   own number of target port descriptors, + anything.  For every n, every port count and every content: exactly those
   groups, each with exactly its ports, whole and in order. *)
Theorem rtpg_exact_length_only : forall (len4 : bytes) (groups : list tpg) (trail : bytes) f,
  length len4 = 4 -> Forall tpg_ok groups ->
  Z.of_N (ba_to_int len4) = Z.of_nat (length (concat (map tpg_bytes groups))) ->
  (forall g gs, groups = g :: gs -> lookup "format_type" (dict_of_decoded (decode_total (g_hdr g) T_ext)) = Some (PInt 0)) ->
  2 * length (concat (map tpg_bytes groups)) + 4 <= f ->
  call_fun all_tables py_program f RTPG [PBytes (len4 ++ concat (map tpg_bytes groups) ++ trail)%list] =
  Ok (PDict [("format_type", PInt 0); ("target_port_group_descriptors", PList (map tpg_dict groups))]).
Proof.
  intros len4 groups trail f Hl Hall Hlen Hfmt Hf.
  assert (Hng : length groups <= length (concat (map tpg_bytes groups))).
  { clear -Hall. induction Hall as [|g gs (Hh & _ & _) _ IH]; [reflexivity|].
    change (concat (map tpg_bytes (g :: gs))) with ((g_hdr g ++ concat (g_ports g)) ++ concat (map tpg_bytes gs))%list.
    change (length (g :: gs)) with (S (length gs)). rewrite !app_length, Hh. lia. }
  unfold call_fun, call_with. rewrite rtpg_lookup. cbn [fn_params bind_params PF_rtpg].
  destruct f as [|f]; [lia|]. rewrite run_S, exec_if. cbn [eval truthy]. cbn [fn_body PF_rtpg].
  cstep. cstep.
  rewrite py_slice_firstn by (rewrite Hl; lia). change (Z.to_nat 4) with 4. rewrite (firstn_len len4 4 Hl).
  rewrite (py_slice_mid len4 (concat (map tpg_bytes groups)) trail) by (rewrite ?Hl; lia || reflexivity).
  rewrite exec_block_cons, exec_if. cbn [eval lookup String.eqb Ascii.eqb Bool.eqb len_eval cmp_eval as_int].
  destruct groups as [|g gs].
  - cbn [truthy]. change (Z.of_nat (length (concat (map tpg_bytes [])))) with 0%Z. cbn [Z.leb Z.compare].
    rewrite exec_block_cons. cbn [exec exec_simple eval eval_list lookup dict_set with_var String.eqb Ascii.eqb Bool.eqb update_at set_item].
    rewrite exec_block_nil.
    change [SAssign "_tpg_descriptors" (EList []); _; _; _] with (skipn 3 (fn_body PF_rtpg)) at 1.
    match goal with |- context [exec_block _ _ _ (skipn 3 _) ?ρ0] => rewrite (rtpg_tail [] [("format_type", PInt 0)] f ρ0) end;
      [reflexivity|constructor|cbn; lia|reflexivity|reflexivity].
  - inversion Hall as [|? ? Hg Hall']; subst. pose proof Hg as (Hh & Hp & Hc).
    assert (Hlen8 : (4 <=? Z.of_nat (length (concat (map tpg_bytes (g :: gs)))))%Z = true).
    { apply Z.leb_le.
      change (concat (map tpg_bytes (g :: gs))) with ((g_hdr g ++ concat (g_ports g)) ++ concat (map tpg_bytes gs))%list.
      rewrite !app_length, Hh. lia. }
    rewrite Hlen8. cbn [truthy].
    cstep. cstep. rewrite (proj2 rtpg_tables).
    change (concat (map tpg_bytes (g :: gs))) with ((g_hdr g ++ concat (g_ports g)) ++ concat (map tpg_bytes gs))%list.
    rewrite <- !app_assoc. rewrite decode_bits_total by apply rtpg_wf.
    rewrite decode_total_prefix by (rewrite Hh; apply rtpg_wf).
    rewrite dict_update_nil by (unfold dict_of_decoded; rewrite map_map; cbn [fst]; rewrite decode_total_names by apply rtpg_wf; apply rtpg_wf).
    cstep. rewrite (Hfmt g gs eq_refl). cbn [update_at set_item dict_set].
    rewrite exec_block_cons, exec_if.
    cbn [eval lookup String.eqb Ascii.eqb Bool.eqb index_eval]. rewrite (Hfmt g gs eq_refl). cbn [cmp_eval py_eq as_int truthy].
    change (Z.eqb 0 1) with false. cbn [truthy]. rewrite !exec_block_nil.
    change [SAssign "_tpg_descriptors" (EList []); _; _; _] with (skipn 3 (fn_body PF_rtpg)) at 1.
    match goal with |- context [exec_block _ _ _ (skipn 3 _) ?ρ0] => rewrite (rtpg_tail (g :: gs) [("format_type", PInt 0)] f ρ0) end;
      [reflexivity|exact Hall| |cbn [lookup String.eqb Ascii.eqb Bool.eqb]|reflexivity].
    + cbn [length] in *. change (length (g :: gs)) with (S (length gs)) in *. lia.
    + change (concat (map tpg_bytes (g :: gs))) with ((g_hdr g ++ concat (g_ports g)) ++ concat (map tpg_bytes gs))%list.
      rewrite <- !app_assoc. reflexivity.
Qed.

(* the extended header format: RETURN DATA LENGTH, then a 4-byte extended header (FORMAT TYPE 1, IMPLICIT TRANSITION TIME),
   then the descriptors *)
Theorem rtpg_exact_extended_header : forall (len4 ext : bytes) (groups : list tpg) (trail : bytes) (itt : pv) f,
  length len4 = 4 -> length ext = 4 -> Forall tpg_ok groups ->
  Z.of_N (ba_to_int len4) = Z.of_nat (4 + length (concat (map tpg_bytes groups))) ->
  lookup "format_type" (dict_of_decoded (decode_total ext T_ext)) = Some (PInt 1) ->
  lookup "implicit_transition_time" (dict_of_decoded (decode_total ext T_ext)) = Some itt ->
  2 * length (concat (map tpg_bytes groups)) + 4 <= f ->
  call_fun all_tables py_program f RTPG [PBytes (len4 ++ (ext ++ concat (map tpg_bytes groups)) ++ trail)%list] =
  Ok (PDict [("format_type", PInt 1); ("implicit_transition_time", itt);
             ("target_port_group_descriptors", PList (map tpg_dict groups))]).
Proof.
  intros len4 ext groups trail itt f Hl He Hall Hlen Hfmt Hitt Hf.
  assert (Hng : length groups <= length (concat (map tpg_bytes groups))).
  { clear -Hall. induction Hall as [|g gs (Hh & _ & _) _ IH]; [reflexivity|].
    change (concat (map tpg_bytes (g :: gs))) with ((g_hdr g ++ concat (g_ports g)) ++ concat (map tpg_bytes gs))%list.
    change (length (g :: gs)) with (S (length gs)). rewrite !app_length, Hh. lia. }
  unfold call_fun, call_with. rewrite rtpg_lookup. cbn [fn_params bind_params PF_rtpg].
  destruct f as [|f]; [lia|]. rewrite run_S, exec_if. cbn [eval truthy]. cbn [fn_body PF_rtpg].
  cstep. cstep.
  rewrite py_slice_firstn by (rewrite Hl; lia). change (Z.to_nat 4) with 4. rewrite (firstn_len len4 4 Hl).
  rewrite (py_slice_mid len4 (ext ++ concat (map tpg_bytes groups)) trail) by (rewrite ?Hl, ?app_length, ?He; lia || reflexivity).
  rewrite exec_block_cons, exec_if. cbn [eval lookup String.eqb Ascii.eqb Bool.eqb len_eval cmp_eval as_int].
  assert (Hlen4 : (4 <=? Z.of_nat (length (ext ++ concat (map tpg_bytes groups))%list))%Z = true).
  { apply Z.leb_le. rewrite app_length, He. lia. }
  rewrite Hlen4. cbn [truthy].
  cstep. cstep. rewrite (proj2 rtpg_tables).
  rewrite decode_bits_total by apply rtpg_wf. rewrite decode_total_prefix by (rewrite He; apply rtpg_wf).
  rewrite dict_update_nil by (unfold dict_of_decoded; rewrite map_map; cbn [fst]; rewrite decode_total_names by apply rtpg_wf; apply rtpg_wf).
  cstep. rewrite Hfmt. cbn [update_at set_item dict_set].
  rewrite exec_block_cons, exec_if.
  cbn [eval lookup String.eqb Ascii.eqb Bool.eqb index_eval]. rewrite Hfmt. cbn [cmp_eval py_eq as_int truthy].
  change (Z.eqb 1 1) with true. cbn [truthy].
  cstep. rewrite Hitt. cbn [update_at set_item dict_set String.eqb Ascii.eqb Bool.eqb].
  cstep. rewrite py_slice_suffix by (rewrite He; reflexivity).
  rewrite !exec_block_nil.
  change [SAssign "_tpg_descriptors" (EList []); _; _; _] with (skipn 3 (fn_body PF_rtpg)) at 1.
  match goal with |- context [exec_block _ _ _ (skipn 3 _) ?ρ0] =>
    rewrite (rtpg_tail groups [("format_type", PInt 1); ("implicit_transition_time", itt)] f ρ0) end;
    [reflexivity|exact Hall|lia|reflexivity|reflexivity].
Qed.

(* ---------------------------------------------------------------- REPORT PRIORITY (descriptors that carry their own length) *)
Definition RPRI := "scsi_cdb_report_priority.ReportPriority.unmarshall_datain".
Notation PF_rpri := PF_scsi_cdb_report_priority_ReportPriority_unmarshall_datain.
Definition T_rpri := T_scsi_cdb_report_priority__ReportPriority___data_bits.

Record pdesc := mkPd { pd_fixed : bytes; pd_tid : bytes }.
Definition pd_fields (d : pdesc) : list (string * pv) := dict_of_decoded (decode_total (pd_fixed d) T_rpri).
(* a conformant priority descriptor: 8 fixed bytes, then a TransportID whose length is the ADDITIONAL LENGTH field *)
Definition pd_ok (d : pdesc) : Prop :=
  length (pd_fixed d) = 8 /\ lookup "adlen" (pd_fields d) = Some (PInt (Z.of_nat (length (pd_tid d)))).
Definition pd_bytes (d : pdesc) : bytes := (pd_fixed d ++ pd_tid d)%list.
Definition pd_dict (d : pdesc) : pv := PDict (pd_fields d ++ [("transport_id", PBytes (pd_tid d))])%list.

Lemma rpri_lookup : lookup RPRI py_program = Some PF_rpri.
Proof. vm_compute. reflexivity. Qed.
Lemma rpri_table : lookup "scsi_cdb_report_priority.ReportPriority._data_bits" all_tables = Some T_rpri.
Proof. vm_compute. reflexivity. Qed.
Lemma rpri_wf : masks_nonzero T_rpri = true /\ names_distinct (map fst T_rpri) = true /\ fields_within 8 T_rpri = true /\
                existsb (String.eqb "transport_id") (map fst T_rpri) = false.
Proof. vm_compute. repeat split; reflexivity. Qed.
Lemma pd_fields_names d : map fst (pd_fields d) = map fst T_rpri.
Proof. unfold pd_fields, dict_of_decoded. rewrite map_map. cbn [fst]. apply decode_total_names, rpri_wf. Qed.

Definition rpri_inv (descs : list pdesc) (ds : list pdesc) (ρ : env) : Prop :=
  exists done, descs = (done ++ ds)%list /\ Forall pd_ok ds /\
    lookup "_data" ρ = Some (PBytes (concat (map pd_bytes ds))) /\
    lookup "_descriptors" ρ = Some (PList (map pd_dict done)) /\
    lookup "result" ρ = Some (PDict []).

Lemma rpri_iter descs call again d ds ρ : rpri_inv descs (d :: ds) ρ ->
  exists ρ', exec_block all_tables call again (while_body PF_rpri 3) ρ = ONorm ρ' /\ rpri_inv descs ds ρ'.
Proof.
  intros (done & Hsplit & Hall & Hdata & Hacc & Hres). inversion Hall as [|? ? Hd Hall']; subst. pose proof Hd as (Hf & Hlen).
  cbn [while_body fn_body nth PF_rpri].
  step. step. rewrite Hdata, rpri_table.
  change (concat (map pd_bytes (d :: ds))) with ((pd_fixed d ++ pd_tid d) ++ concat (map pd_bytes ds))%list. rewrite <- !app_assoc.
  rewrite decode_bits_total by apply rpri_wf. rewrite decode_total_prefix by (rewrite Hf; apply rpri_wf).
  unfold with_var. lk. fold (pd_fields d).
  assert (Hn : names_distinct (map fst (pd_fields d)) = true) by (rewrite pd_fields_names; apply rpri_wf).
  rewrite (dict_update_nil _ Hn).
  step. rewrite Hdata. cbn [index_eval]. rewrite Hlen. cbn [bin_eval as_int slice_eval opt_int].
  change (concat (map pd_bytes (d :: ds))) with ((pd_fixed d ++ pd_tid d) ++ concat (map pd_bytes ds))%list. rewrite <- !app_assoc.
  rewrite (py_slice_mid (pd_fixed d) (pd_tid d)) by (rewrite ?Hf; lia).
  unfold with_var. lk. cbn [update_at set_item].
  rewrite (dict_set_fresh (pd_fields d)) by (apply lookup_not_in; rewrite pd_fields_names; apply rpri_wf).
  step. unfold with_var. lk. rewrite Hacc. cbn [update_at].
  step. rewrite Hdata. cbn [index_eval]. rewrite (lookup_app_some _ _ _ _ Hlen). cbn [bin_eval as_int slice_eval opt_int].
  change (concat (map pd_bytes (d :: ds))) with ((pd_fixed d ++ pd_tid d) ++ concat (map pd_bytes ds))%list.
  rewrite py_slice_suffix by (rewrite app_length, Hf; lia).
  rewrite exec_block_nil. eexists. split; [reflexivity|].
  exists (done ++ [d])%list. repeat split; lk; try assumption.
  - rewrite <- app_assoc. reflexivity.
  - reflexivity.
  - rewrite map_app. reflexivity.
Qed.

Lemma rpri_cond descs call ds ρ : rpri_inv descs ds ρ ->
  exists v, eval call ρ (while_cond PF_rpri 3) = Ok v /\ truthy v = match ds with [] => false | _ => true end.
Proof.
  intros (done & Hsplit & Hall & Hdata & Hacc & Hres).
  cbn [while_cond fn_body nth PF_rpri eval]. rewrite Hdata. cbn [len_eval].
  eexists. split; [reflexivity|]. cbn [truthy]. destruct ds as [|d ds]; [reflexivity|].
  inversion Hall as [|? ? (Hf & _) _]; subst.
  change (concat (map pd_bytes (d :: ds))) with ((pd_fixed d ++ pd_tid d) ++ concat (map pd_bytes ds))%list.
  rewrite !app_length, Hf. destruct (Z.eqb_spec (Z.of_nat (8 + length (pd_tid d) + length (concat (map pd_bytes ds)))) 0); [lia|reflexivity].
Qed.

(* REPORT PRIORITY: PRIORITY PARAMETER DATA LENGTH + n descriptors (8 bytes + a TransportID of ADDITIONAL LENGTH bytes) + anything *)
Theorem report_priority_exact : forall (len4 : bytes) (descs : list pdesc) (trail : bytes) f,
  length len4 = 4 -> Forall pd_ok descs ->
  Z.of_N (ba_to_int len4) = Z.of_nat (length (concat (map pd_bytes descs))) ->
  length descs + 2 <= f ->
  call_fun all_tables py_program f RPRI [PBytes (len4 ++ concat (map pd_bytes descs) ++ trail)%list] =
  Ok (PDict [("priority_descriptors", PList (map pd_dict descs))]).
Proof.
  intros len4 descs trail f Hl Hall Hlen Hf.
  unfold call_fun, call_with. rewrite rpri_lookup. cbn [fn_params bind_params PF_rpri].
  destruct f as [|f]; [lia|]. rewrite run_S, exec_if. cbn [eval truthy]. cbn [fn_body PF_rpri].
  cstep. cstep. cstep.
  rewrite py_slice_firstn by (rewrite Hl; lia). change (Z.to_nat 4) with 4. rewrite (firstn_len len4 4 Hl).
  rewrite (py_slice_mid len4 (concat (map pd_bytes descs)) trail) by (rewrite ?Hl; lia || reflexivity).
  rewrite exec_block_cons, <- run_S.
  match goal with |- context [run _ _ (S f) _ ?ρ0] =>
    pose proof (while_consumes all_tables py_program (while_cond PF_rpri 3) (while_body PF_rpri 3) pdesc (rpri_inv descs) 0
                  (fun f ds ρ H => rpri_cond descs _ ds ρ H) (fun f d ds ρ _ H => rpri_iter descs _ _ d ds ρ H) descs f ρ0) as W
  end.
  cbn [while_cond while_body fn_body nth PF_rpri] in W.
  destruct W as (ρ' & W & (done & Hsplit & _ & _ & Hacc & Hres)); [lia| |].
  { exists []. repeat split; try reflexivity. exact Hall. }
  rewrite W. clear W. rewrite app_nil_r in Hsplit. subst done.
  step. unfold with_var. rewrite Hres, Hacc. cbn [update_at dict_update fold_left dict_set fst snd].
  step. reflexivity.
Qed.

(* ---------------------------------------------------------------- PERSISTENT RESERVE IN / READ FULL STATUS (calls another decoder) *)
Definition RFS := "scsi_cdb_persistentreservein.PersistentReserveInReadFullStatus.unmarshall_datain".
Definition UTID := "scsi_cdb_persistentreservein.PersistentReserveInReadFullStatus.unmarshall_transport_id".
Notation PF_rfs := PF_scsi_cdb_persistentreservein_PersistentReserveInReadFullStatus_unmarshall_datain.
Definition T_rfs := T_scsi_cdb_persistentreservein__PersistentReserveInReadFullStatus___full_status_desc_bits.

(* what the TransportID decoder makes of a TransportID at the head of a buffer (whatever follows it, whatever fuel) *)
Definition tid_decodes (tid : bytes) (v : pv) : Prop :=
  forall rest f, 1 <= f -> call_with py_program (run all_tables py_program f) UTID [PBytes (tid ++ rest)%list] = Ok v.

Record fsdesc := mkFs { fs_fixed : bytes; fs_tid : bytes; fs_tidv : pv }.
Definition fs_fields (d : fsdesc) : list (string * pv) := dict_of_decoded (decode_total (fs_fixed d) T_rfs).
(* a conformant full status descriptor: 24 fixed bytes, ADDITIONAL DESCRIPTOR LENGTH = length of the TransportID (> 0) *)
Definition fs_ok (d : fsdesc) : Prop :=
  length (fs_fixed d) = 24 /\ 0 < length (fs_tid d) /\
  lookup "additional_desc_length" (fs_fields d) = Some (PInt (Z.of_nat (length (fs_tid d)))) /\
  tid_decodes (fs_tid d) (fs_tidv d).
Definition fs_bytes (d : fsdesc) : bytes := (fs_fixed d ++ fs_tid d)%list.
Definition fs_dict (d : fsdesc) : pv :=
  PDict (dict_remove (fs_fields d) "additional_desc_length" ++ [("transport_id", fs_tidv d)])%list.

Lemma rfs_lookup : lookup RFS py_program = Some PF_rfs.
Proof. vm_compute. reflexivity. Qed.
Lemma rfs_table : lookup "scsi_cdb_persistentreservein.PersistentReserveInReadFullStatus._full_status_desc_bits" all_tables = Some T_rfs.
Proof. vm_compute. reflexivity. Qed.
Lemma rfs_wf : masks_nonzero T_rfs = true /\ names_distinct (map fst T_rfs) = true /\ fields_within 24 T_rfs = true /\
               existsb (String.eqb "transport_id") (map fst T_rfs) = false.
Proof. vm_compute. repeat split; reflexivity. Qed.
Lemma fs_fields_names d : map fst (fs_fields d) = map fst T_rfs.
Proof. unfold fs_fields, dict_of_decoded. rewrite map_map. cbn [fst]. apply decode_total_names, rfs_wf. Qed.

Definition rfs_inv (descs : list fsdesc) (g : pv) (ds : list fsdesc) (ρ : env) : Prop :=
  exists done, descs = (done ++ ds)%list /\ Forall fs_ok ds /\
    lookup "data" ρ = Some (PBytes (concat (map fs_bytes ds))) /\
    lookup "result" ρ = Some (PDict [("pr_generation", g); ("full_status", PList (map fs_dict done))]).

Lemma rfs_iter descs g f d ds ρ : 1 <= f -> rfs_inv descs g (d :: ds) ρ ->
  exists ρ', exec_block all_tables (call_with py_program (run all_tables py_program f)) (run all_tables py_program f) (while_body PF_rfs 6) ρ = ONorm ρ'
    /\ rfs_inv descs g ds ρ'.
Proof.
  intros Hf (done & Hsplit & Hall & Hdata & Hres). inversion Hall as [|? ? Hd Hall']; subst. pose proof Hd as (Hfx & Hpos & Hlen & Htid).
  cbn [while_body fn_body nth PF_rfs].
  step. step. rewrite Hdata, rfs_table.
  change (concat (map fs_bytes (d :: ds))) with ((fs_fixed d ++ fs_tid d) ++ concat (map fs_bytes ds))%list. rewrite <- !app_assoc.
  rewrite decode_bits_total by apply rfs_wf. rewrite decode_total_prefix by (rewrite Hfx; apply rfs_wf).
  unfold with_var. lk. fold (fs_fields d).
  assert (Hn : names_distinct (map fst (fs_fields d)) = true) by (rewrite fs_fields_names; apply rfs_wf).
  rewrite (dict_update_nil _ Hn).
  step. rewrite Hdata. cbn [slice_eval opt_int as_int].
  change (concat (map fs_bytes (d :: ds))) with ((fs_fixed d ++ fs_tid d) ++ concat (map fs_bytes ds))%list. rewrite <- !app_assoc.
  rewrite py_slice_suffix by (rewrite Hfx; reflexivity).
  step. cbn [index_eval]. rewrite Hlen.
  step. unfold with_var. lk. rewrite Hlen.
  rewrite exec_block_cons, exec_if. cbn [eval]. lk. cbn [cmp_eval as_int].
  assert (Hgt : (0 <? Z.of_nat (length (fs_tid d)))%Z = true) by (apply Z.ltb_lt; lia). rewrite Hgt. cbn [truthy].
  step. rewrite (Htid _ f Hf). unfold with_var. lk. cbn [update_at set_item].
  rewrite (dict_set_fresh (dict_remove (fs_fields d) "additional_desc_length"))
    by (apply lookup_not_in, remove_names_subset; rewrite fs_fields_names; apply rfs_wf).
  step. cbn [slice_eval opt_int as_int]. rewrite py_slice_suffix by reflexivity.
  step. unfold with_var. lk. rewrite Hres.
  cbn [update_at index_eval lookup String.eqb Ascii.eqb Bool.eqb set_item dict_set].
  rewrite !exec_block_nil. eexists. split; [reflexivity|].
  exists (done ++ [d])%list. repeat split; lk; try assumption.
  - rewrite <- app_assoc. reflexivity.
  - reflexivity.
  - rewrite map_app. reflexivity.
Qed.

Lemma rfs_cond descs g call ds ρ : rfs_inv descs g ds ρ ->
  exists v, eval call ρ (while_cond PF_rfs 6) = Ok v /\ truthy v = match ds with [] => false | _ => true end.
Proof.
  intros (done & Hsplit & Hall & Hdata & Hres).
  cbn [while_cond fn_body nth PF_rfs eval]. rewrite Hdata. cbn [len_eval].
  eexists. split; [reflexivity|]. cbn [truthy]. destruct ds as [|d ds]; [reflexivity|].
  inversion Hall as [|? ? (Hf & _) _]; subst.
  change (concat (map fs_bytes (d :: ds))) with ((fs_fixed d ++ fs_tid d) ++ concat (map fs_bytes ds))%list.
  rewrite !app_length, Hf. destruct (Z.eqb_spec (Z.of_nat (24 + length (fs_tid d) + length (concat (map fs_bytes ds)))) 0); [lia|reflexivity].
Qed.

(* READ FULL STATUS: PRGENERATION, ADDITIONAL LENGTH, n full status descriptors (24 bytes + TransportID), anything *)
Theorem prin_read_full_status_exact : forall (hdr : bytes) (descs : list fsdesc) (trail : bytes) f,
  length hdr = 8 -> Forall fs_ok descs ->
  Z.of_N (ba_to_int (skipn 4 hdr)) = Z.of_nat (length (concat (map fs_bytes descs))) ->
  length descs + 3 <= f ->
  call_fun all_tables py_program f RFS [PBytes (hdr ++ concat (map fs_bytes descs) ++ trail)%list] =
  Ok (PDict [("pr_generation", PInt (Z.of_N (ba_to_int (firstn 4 hdr)))); ("full_status", PList (map fs_dict descs))]).
Proof.
  intros hdr descs trail f Hh Hall Hlen Hf.
  unfold call_fun, call_with. rewrite rfs_lookup. cbn [fn_params bind_params PF_rfs].
  destruct f as [|f]; [lia|]. rewrite run_S, exec_if. cbn [eval truthy]. cbn [fn_body PF_rfs].
  cstep. cstep. cstep. cstep.
  rewrite py_slice_firstn by (rewrite Hh; lia). change (Z.to_nat 4) with 4.
  rewrite (py_slice_tail_of_prefix hdr _ 4 8) by (rewrite ?Hh; lia || reflexivity). change (Z.to_nat 4) with 4.
  rewrite exec_block_cons, exec_if. cbn [eval lookup String.eqb Ascii.eqb Bool.eqb cmp_eval py_eq as_int]. rewrite Hlen.
  destruct descs as [|d ds].
  - change (Z.of_nat (length (concat (map fs_bytes [])))) with 0%Z. change (Z.eqb 0 0) with true. cbn [truthy].
    cstep. reflexivity.
  - inversion Hall as [|? ? Hd Hall']; subst. pose proof Hd as (Hfx & _).
    assert (Hnz : Z.eqb (Z.of_nat (length (concat (map fs_bytes (d :: ds))))) 0 = false).
    { apply Z.eqb_neq. change (concat (map fs_bytes (d :: ds))) with ((fs_fixed d ++ fs_tid d) ++ concat (map fs_bytes ds))%list.
      rewrite !app_length, Hfx. lia. }
    rewrite Hnz. cbn [truthy]. rewrite exec_block_nil.
    cstep.
    rewrite (py_slice_mid hdr (concat (map fs_bytes (d :: ds))) trail) by (rewrite ?Hh; lia || reflexivity).
    rewrite exec_block_cons, <- run_S.
    match goal with |- context [run _ _ (S f) _ ?ρ0] =>
      pose proof (while_consumes all_tables py_program (while_cond PF_rfs 6) (while_body PF_rfs 6) fsdesc
                    (rfs_inv (d :: ds) (PInt (Z.of_N (ba_to_int (firstn 4 hdr))))) 1
                    (fun f ds ρ H => rfs_cond _ _ _ ds ρ H) (fun f d ds ρ Hm H => rfs_iter _ _ f d ds ρ Hm H) (d :: ds) f ρ0) as W
    end.
    cbn [while_cond while_body fn_body nth PF_rfs] in W.
    destruct W as (ρ' & W & (done & Hsplit & _ & _ & Hres)); [change (length (d :: ds)) with (S (length ds)) in *; lia| |].
    { exists []. repeat split; try reflexivity. exact Hall. }
    rewrite W. clear W. rewrite app_nil_r in Hsplit. subst done.
    step. rewrite Hres. reflexivity.
Qed.

(* the TransportID decoder on the 24-byte TransportIDs: Fibre Channel (protocol 0h: N_PORT NAME at bytes 8-15) and
   SAS (protocol 6h: SAS ADDRESS at bytes 4-11), whatever follows them in the buffer *)
Notation PF_utid := PF_scsi_cdb_persistentreservein_PersistentReserveInReadFullStatus_unmarshall_transport_id.
Definition T_tid := T_scsi_cdb_persistentreservein__PersistentReserveInReadFullStatus___transport_id_bits.
Definition tid_fields (tid : bytes) : list (string * pv) := dict_of_decoded (decode_total tid T_tid).
Lemma utid_lookup : lookup UTID py_program = Some PF_utid.
Proof. vm_compute. reflexivity. Qed.
Lemma utid_table : lookup "scsi_cdb_persistentreservein.PersistentReserveInReadFullStatus._transport_id_bits" all_tables = Some T_tid.
Proof. vm_compute. reflexivity. Qed.
Lemma utid_wf : masks_nonzero T_tid = true /\ names_distinct (map fst T_tid) = true /\ fields_within 24 T_tid = true /\
                existsb (String.eqb "n_port_name") (map fst T_tid) = false /\ existsb (String.eqb "sas_address") (map fst T_tid) = false.
Proof. vm_compute. repeat split; reflexivity. Qed.
Lemma tid_fields_names t : map fst (tid_fields t) = map fst T_tid.
Proof. unfold tid_fields, dict_of_decoded. rewrite map_map. cbn [fst]. apply decode_total_names, utid_wf. Qed.

Lemma tid_decodes_fc (tid : bytes) : length tid = 24 -> lookup "protocol_id" (tid_fields tid) = Some (PInt 0) ->
  tid_decodes tid (PDict (tid_fields tid ++ [("n_port_name", PBytes (firstn 8 (skipn 8 tid)))])%list).
Proof.
  intros Hl Hp rest f Hf. unfold call_with. rewrite utid_lookup. cbn [fn_params bind_params PF_utid].
  destruct f as [|f]; [lia|]. rewrite run_S, exec_if. cbn [eval truthy]. cbn [fn_body PF_utid].
  cstep. cstep. rewrite utid_table. rewrite decode_bits_total by apply utid_wf. rewrite decode_total_prefix by (rewrite Hl; apply utid_wf).
  fold (tid_fields tid). rewrite dict_update_nil by (rewrite tid_fields_names; apply utid_wf).
  cstep. rewrite Hp.
  rewrite exec_block_cons, exec_if. cbn [eval lookup String.eqb Ascii.eqb Bool.eqb cmp_eval py_eq as_int]. change (Z.eqb 0 0) with true. cbn [truthy].
  cstep. rewrite (dict_set_fresh (tid_fields tid)) by (apply lookup_not_in; rewrite tid_fields_names; apply utid_wf).
  rewrite exec_block_nil. cstep.
  replace (py_slice (tid ++ rest)%list (Some 8%Z) (Some 16%Z)) with (firstn 8 (skipn 8 tid)); [reflexivity|].
  unfold py_slice. rewrite !clip_in by (rewrite app_length, Hl; lia). change (Z.to_nat 16 - Z.to_nat 8) with 8. change (Z.to_nat 8) with 8.
  rewrite skipn_app, firstn_app, skipn_length, Hl. change (8 - (24 - 8)) with 0. cbn [firstn]. now rewrite app_nil_r.
Qed.

Lemma tid_decodes_sas (tid : bytes) : length tid = 24 -> lookup "protocol_id" (tid_fields tid) = Some (PInt 6) ->
  tid_decodes tid (PDict (tid_fields tid ++ [("sas_address", PBytes (firstn 8 (skipn 4 tid)))])%list).
Proof.
  intros Hl Hp rest f Hf. unfold call_with. rewrite utid_lookup. cbn [fn_params bind_params PF_utid].
  destruct f as [|f]; [lia|]. rewrite run_S, exec_if. cbn [eval truthy]. cbn [fn_body PF_utid].
  cstep. cstep. rewrite utid_table. rewrite decode_bits_total by apply utid_wf. rewrite decode_total_prefix by (rewrite Hl; apply utid_wf).
  fold (tid_fields tid). rewrite dict_update_nil by (rewrite tid_fields_names; apply utid_wf).
  cstep. rewrite Hp.
  do 5 (rewrite exec_block_cons, exec_if; cbn [eval lookup String.eqb Ascii.eqb Bool.eqb cmp_eval py_eq as_int];
        match goal with |- context [Z.eqb 6 ?k] => let b := eval vm_compute in (Z.eqb 6 k) in change (Z.eqb 6 k) with b end; cbn [truthy]).
  cstep. rewrite (dict_set_fresh (tid_fields tid)) by (apply lookup_not_in; rewrite tid_fields_names; apply utid_wf).
  rewrite !exec_block_nil. cstep.
  replace (py_slice (tid ++ rest)%list (Some 4%Z) (Some 12%Z)) with (firstn 8 (skipn 4 tid)); [reflexivity|].
  unfold py_slice. rewrite !clip_in by (rewrite app_length, Hl; lia). change (Z.to_nat 12 - Z.to_nat 4) with 8. change (Z.to_nat 4) with 4.
  rewrite skipn_app, firstn_app, skipn_length, Hl. change (8 - (24 - 4)) with 0. cbn [firstn]. now rewrite app_nil_r.
Qed.

