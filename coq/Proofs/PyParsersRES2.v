(* Proofs/PyParsersRES2.v — exactness of the REGENERATED body of ReadElementStatus.unmarshall_datain (Gen/PyFuncs.v) under the
   semantics of Model/Py.v: element status pages of element descriptors, optional volume tags, element-type specific fields. *)
From Coq Require Import String ZArith List Bool Lia.
From PS Require Import Base.Bytes Base.Result Model.Converter Model.Py Proofs.FacadeState Proofs.PyLemmas Proofs.PyParsers Proofs.PyParsersRES Gen.Tables Gen.PyFuncs.
Import ListNotations.
Set Default Timeout 900.
Open Scope string_scope.
Open Scope nat_scope.

Local Arguments ba_to_int : simpl never.
Local Arguments py_slice : simpl never.
Local Arguments decode_bits : simpl never.
Local Arguments decode_total : simpl never.
Local Arguments dict_update : simpl never.
Local Arguments dict_of_decoded : simpl never.
Local Arguments run : simpl never.
Local Arguments call_with : simpl never.
Local Arguments Z.add : simpl never.
Local Arguments Z.of_N : simpl never.
Local Arguments Z.of_nat : simpl never.
Local Arguments Z.eqb : simpl never.
Local Arguments length : simpl never.
Local Arguments app : simpl never.
Local Arguments concat : simpl never.
Local Arguments map : simpl never.
Local Arguments clip : simpl never.

Lemma res_inner_cond_ok F pf E descs frame call ds ρ : 0 < E -> res_inner F pf E descs frame ds ρ ->
  exists v, eval call ρ res_inner_cond = Ok v /\ truthy v = match ds with [] => false | _ => true end.
Proof.
  intros HE (done & Hsplit & Hall & Hd & Hed & Hr & Hedl & Hframe).
  cbn [res_inner_cond res_inner_loop while_body fn_body nth PF_res eval]. rewrite Hedl. cbn [truthy].
  destruct (Z.eqb_spec (Z.of_nat E) 0) as [E0|E0]; [lia|]. cbn [negb]. rewrite Hd. cbn [len_eval].
  eexists. split; [reflexivity|]. cbn [truthy]. destruct ds as [|d ds]; [reflexivity|].
  pose proof (Forall_inv Hall) as Hlen. cbn beta in Hlen.
  change (concat (d :: ds)) with (d ++ concat ds)%list. rewrite app_length, Hlen.
  destruct (Z.eqb_spec (Z.of_nat (E + length (concat ds))) 0); [lia|reflexivity].
Qed.

(* element status pages *)
Record espage := mkEP { ep_hdr : bytes; ep_flags : pflags; ep_E : nat; ep_descs : list bytes }.
Definition page_r (p : espage) : list (string * pv) := dict_update [] (dict_of_decoded (decode_total (ep_hdr p) T_res_page)).
(* a conformant element status page: 8 header bytes whose flags, ELEMENT DESCRIPTOR LENGTH and BYTE COUNT OF DESCRIPTOR DATA
   AVAILABLE describe the descriptors that follow; descriptors long enough for the tags the flags announce *)
Definition page_ok (p : espage) : Prop :=
  length (ep_hdr p) = 8 /\ Forall (fun d => length d = ep_E p) (ep_descs p) /\
  lookup "pvoltag" (page_r p) = Some (PInt (b2z (pf_pv (ep_flags p)))) /\
  lookup "avoltag" (page_r p) = Some (PInt (b2z (pf_av (ep_flags p)))) /\
  lookup "element_type" (page_r p) = Some (PInt (pf_ty (ep_flags p))) /\
  12 + (if pf_pv (ep_flags p) then 36 else 0) + (if pf_av (ep_flags p) then 36 else 0) <= ep_E p /\
  Z.of_N (ba_to_int (firstn 2 (skipn 2 (ep_hdr p)))) = Z.of_nat (ep_E p) /\
  Z.of_N (ba_to_int (skipn 5 (ep_hdr p))) = Z.of_nat (length (concat (ep_descs p))).
Definition page_bytes (p : espage) : bytes := (ep_hdr p ++ concat (ep_descs p))%list.
Definition page_dict (p : espage) : pv :=
  PDict (dict_update (page_r p) [("element_descriptors", PList (map (elem_dict (ep_flags p)) (ep_descs p)))]).

Definition res_inv (pages : list espage) (res0 : list (string * pv)) (ps : list espage) (ρ : env) : Prop :=
  exists done, pages = (done ++ ps)%list /\ Forall page_ok ps /\
    lookup "data" ρ = Some (PBytes (concat (map page_bytes ps))) /\
    lookup "_esd" ρ = Some (PList (map page_dict done)) /\
    lookup "result" ρ = Some (PDict res0).

Lemma res_iter pages res0 f p ps ρ : length (ep_descs p) <= f -> res_inv pages res0 (p :: ps) ρ ->
  exists ρ', exec_block all_tables (call_with py_program (run all_tables py_program f)) (run all_tables py_program f) res_outer_body ρ = ONorm ρ'
    /\ res_inv pages res0 ps ρ'.
Proof.
  intros Hf (done & Hsplit & Hall & Hdata & Hesd & Hres).
  pose proof (Forall_inv Hall) as Hp. pose proof (Forall_inv_tail Hall) as Hall'.
  destruct Hp as (Hh & Hdl & Hpv & Hav & Hty & HE & Hedl & Hbc).
  destruct res_tables as (_ & Tp & _). destruct res_wf as (_ & _ & _ & Wp1 & Wp2 & _).
  change (concat (map page_bytes (p :: ps))) with ((ep_hdr p ++ concat (ep_descs p)) ++ concat (map page_bytes ps))%list in Hdata.
  rewrite <- app_assoc in Hdata.
  cbn [while_body fn_body nth PF_res].
  step. step. rewrite Hdata. cbn [slice_eval opt_int as_int].
  rewrite (py_slice_tail_of_prefix (ep_hdr p) _ 5 8) by (rewrite ?Hh; lia || reflexivity). change (Z.to_nat 5) with 5.
  step. rewrite Hdata. cbn [slice_eval opt_int as_int].
  rewrite (py_slice_inside (ep_hdr p) _ 2 4) by (rewrite ?Hh; lia). change (Z.to_nat 4 - Z.to_nat 2) with 2. change (Z.to_nat 2) with 2.
  step. rewrite Hdata, Tp. rewrite decode_bits_total by exact Wp1. rewrite decode_total_prefix by (rewrite Hh; exact Wp2).
  unfold with_var. lk. fold (page_r p).
  step. rewrite Hdata. cbn [slice_eval opt_int as_int bin_eval]. rewrite Hbc.
  rewrite (py_slice_mid (ep_hdr p) (concat (ep_descs p))) by (rewrite ?Hh; lia).
  step.
  assert (HE0 : 0 < ep_E p) by (revert HE; destruct (pf_pv (ep_flags p)), (pf_av (ep_flags p)); intros; lia).
  rewrite exec_block_cons, <- run_S.
  match goal with |- context [run _ _ (S f) _ ?ρ0] =>
    pose proof (while_consumes all_tables py_program res_inner_cond res_inner_body _
                  (res_inner (ep_flags p) (page_r p) (ep_E p) (ep_descs p) ρ0) 0
                  (fun f ds ρ H => res_inner_cond_ok _ _ _ _ _ _ ds ρ HE0 H)
                  (fun f d ds ρ _ H => res_inner_iter _ _ _ _ _ _ _ d ds ρ Hpv Hav Hty HE H) (ep_descs p) f ρ0) as W
  end.
  cbn [res_inner_cond res_inner_body res_inner_loop while_body fn_body nth PF_res] in W.
  destruct W as (ρ1 & W & (done' & Hsplit' & _ & Hd1 & Hed1 & Hr1 & Hedl1 & Hframe1)); [lia| |].
  { exists []. repeat split; lk; try assumption; try reflexivity. rewrite Hedl. reflexivity. }
  rewrite W. clear W. rewrite app_nil_r in Hsplit'. subst done'.
  step. unfold with_var. rewrite Hed1, Hr1. cbn [update_at].
  step. unfold with_var. lk. rewrite (Hframe1 "_esd") by (cbn [In]; tauto). lk. rewrite Hesd. cbn [update_at].
  step. rewrite (Hframe1 "_bc") by (cbn [In]; tauto). lk. rewrite (Hframe1 "data") by (cbn [In]; tauto). lk. rewrite Hdata.
  cbn [bin_eval as_int slice_eval opt_int].
  rewrite app_assoc. rewrite py_slice_suffix by (rewrite app_length, Hh; lia).
  rewrite exec_block_nil. eexists. split; [reflexivity|].
  exists (done ++ [p])%list. repeat split; lk; try assumption;
    first [ reflexivity | rewrite Hsplit, <- app_assoc; reflexivity | rewrite map_app; reflexivity
          | rewrite (Hframe1 "result") by (cbn [In]; tauto); lk; exact Hres
          | match goal with |- ?G => idtac "STUCK" G end; fail ].
Qed.

Lemma res_cond pages res0 call ps ρ : res_inv pages res0 ps ρ ->
  exists v, eval call ρ (while_cond PF_res 5) = Ok v /\ truthy v = match ps with [] => false | _ => true end.
Proof.
  intros (done & Hsplit & Hall & Hdata & Hesd & Hres).
  cbn [while_cond fn_body nth PF_res eval]. rewrite Hdata. cbn [len_eval].
  eexists. split; [reflexivity|]. cbn [truthy]. destruct ps as [|p ps]; [reflexivity|].
  pose proof (Forall_inv Hall) as (Hh & _).
  change (concat (map page_bytes (p :: ps))) with ((ep_hdr p ++ concat (ep_descs p)) ++ concat (map page_bytes ps))%list.
  rewrite !app_length, Hh. destruct (Z.eqb_spec (Z.of_nat (8 + length (concat (ep_descs p)) + length (concat (map page_bytes ps)))) 0); [lia|reflexivity].
Qed.

Lemma descs_bound (done : list espage) p ps : page_ok p -> length (ep_descs p) <= length (concat (map page_bytes (done ++ p :: ps))).
Proof.
  intros (_ & Hd & _ & _ & _ & HE & _). rewrite map_app, concat_app, app_length.
  change (concat (map page_bytes (p :: ps))) with ((ep_hdr p ++ concat (ep_descs p)) ++ concat (map page_bytes ps))%list.
  rewrite !app_length.
  assert (HE0 : 0 < ep_E p) by (revert HE; destruct (pf_pv (ep_flags p)), (pf_av (ep_flags p)); intros; lia).
  pose proof (concat_len_ge _ _ HE0 Hd).
  lia.
Qed.

Definition res_header (hdr : bytes) : list (string * pv) := dict_update [] (dict_of_decoded (decode_total hdr T_res_hdr)).

(* READ ELEMENT STATUS: 8-byte header (BYTE COUNT OF REPORT AVAILABLE), then any number of element status pages, each with its own
   flags, descriptor length and number of descriptors, then anything: exactly those pages with exactly their descriptors, the
   volume tags where the page announces them, the fields of the page's element type *)
Theorem read_element_status_exact : forall (hdr : bytes) (pages : list espage) (trail : bytes) f,
  length hdr = 8 -> Forall page_ok pages ->
  Z.of_N (ba_to_int (skipn 5 hdr)) = Z.of_nat (length (concat (map page_bytes pages))) ->
  2 * length (concat (map page_bytes pages)) + 4 <= f ->
  call_fun all_tables py_program f RES [PBytes (hdr ++ concat (map page_bytes pages) ++ trail)%list] =
  Ok (PDict (dict_update (res_header hdr) [("element_status_pages", PList (map page_dict pages))])).
Proof.
  intros hdr pages trail f Hh Hall Hlen Hf.
  assert (Hng : length pages <= length (concat (map page_bytes pages))).
  { clear -Hall. induction Hall as [|p ps (Hh & _) _ IH]; [reflexivity|].
    change (concat (map page_bytes (p :: ps))) with ((ep_hdr p ++ concat (ep_descs p)) ++ concat (map page_bytes ps))%list.
    change (length (p :: ps)) with (S (length ps)). rewrite !app_length, Hh. lia. }
  destruct res_tables as (Th & _). destruct res_wf as (Wh1 & Wh2 & _).
  unfold call_fun, call_with. rewrite res_lookup. cbn [fn_params bind_params PF_res].
  destruct f as [|f]; [lia|]. rewrite run_S, exec_if. cbn [eval truthy]. cbn [fn_body PF_res].
  cstep. cstep. cstep. rewrite Th. rewrite decode_bits_total by exact Wh1. rewrite decode_total_prefix by (rewrite Hh; exact Wh2).
  fold (res_header hdr).
  cstep. rewrite (py_slice_tail_of_prefix hdr _ 5 8) by (rewrite ?Hh; lia || reflexivity). change (Z.to_nat 5) with 5.
  cstep. rewrite Hlen. rewrite (py_slice_mid hdr (concat (map page_bytes pages)) trail) by (rewrite ?Hh; lia).
  rewrite exec_block_cons, <- run_S.
  match goal with |- context [run _ _ (S f) _ ?ρ0] =>
    pose proof (while_consumes all_tables py_program (while_cond PF_res 5) (while_body PF_res 5) espage (res_inv pages (res_header hdr))
                  (length (concat (map page_bytes pages)))
                  (fun f ps ρ H => res_cond pages _ _ ps ρ H)) as W;
    specialize (W (fun f p ps ρ Hm H => res_iter pages _ f p ps ρ
                     ltac:(destruct H as (dn & Hs & Ha & _); rewrite Hs in Hm; eapply Nat.le_trans; [apply descs_bound; exact (Forall_inv Ha)|exact Hm]) H)
                  pages f ρ0)
  end.
  cbn [while_cond while_body fn_body nth PF_res] in W.
  destruct W as (ρ1 & W & (done & Hsplit & _ & _ & Hesd1 & Hres1)); [lia| |].
  { exists []. repeat split; try reflexivity. exact Hall. }
  rewrite W. clear W. rewrite app_nil_r in Hsplit. subst done.
  step. unfold with_var. rewrite Hesd1, Hres1. cbn [update_at].
  step. reflexivity.
Qed.
