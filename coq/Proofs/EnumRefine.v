(* Proofs/EnumRefine.v — the Enum metaclass refines an ordinary insertion-ordered dictionary, for every
   sequence of add / remove / lookup / reverse-lookup / keys operations, provided the `keys` filter
   keeps exactly the non-dunder names (a decidable condition on the REGENERATED filter). *)
From Coq Require Import String.
From PS Require Import Base.Bytes Base.Result Model.Converter Model.Enum.
Set Default Timeout 60.
Open Scope string_scope.

(* the filter lists a name iff it is not a dunder name — for every kind of value *)
Definition filter_ok (f : fexpr) : bool :=
  forallb (fun cdm : bool * bool * bool =>
             let '(c, d, m) := cdm in Bool.eqb (feval f c d m) (negb d))
          [(false, false, false); (false, true, false); (true, false, false); (true, true, false);
           (true, false, true); (true, true, true)].

Definition visible (kv : string * evalue) : bool := negb (is_dunder (fst kv)).
Definition abs (st : estate) : estate := filter visible st.

Definition name_ok (o : eop) : bool :=
  match o with
  | OAdd k _ | ORemove k | OGet k => negb (is_dunder k)
  | _ => true
  end.

Definition Inv (st d : estate) : Prop := d = abs st /\ NoDup (map fst st).

Section Refine.
  Variable filt : fexpr.
  Hypothesis Hf : filter_ok filt = true.

  Lemma keep_visible kv : keep filt kv = visible kv.
  Proof.
    unfold keep, visible. destruct kv as [k v]. cbn [fst snd].
    pose proof Hf as Hg. unfold filter_ok in Hg. cbn [forallb] in Hg. cbv beta iota in Hg.
    repeat (apply andb_prop in Hg; destruct Hg as [?H Hg]).
    repeat match goal with H : Bool.eqb _ _ = true |- _ => apply Bool.eqb_prop in H end.
    destruct v as [n|s|tag [| |]]; cbn [is_callable is_method]; destruct (is_dunder k); assumption.
  Qed.

  Lemma keys_abs st : e_keys filt st = map fst (abs st).
  Proof.
    unfold e_keys, abs. f_equal. apply filter_ext. intros kv. apply keep_visible.
  Qed.

  Lemma lookup_abs st k : is_dunder k = false -> lookup k (abs st) = lookup k st.
  Proof.
    intros Hk. unfold abs. induction st as [|[k1 v1] st IH]; cbn [filter lookup]; [reflexivity|].
    unfold visible at 1. cbn [fst].
    destruct (String.eqb_spec k k1) as [->|Hne].
    - rewrite Hk. cbn [negb lookup]. now rewrite String.eqb_refl.
    - destruct (is_dunder k1); cbn [negb lookup]; [exact IH|].
      destruct (String.eqb_spec k k1); [contradiction|exact IH].
  Qed.

  Lemma mem_In k l : mem k l = true <-> In k l.
  Proof.
    induction l as [|x l IH]; cbn [mem In]; [split; [discriminate|tauto]|].
    rewrite orb_true_iff, IH, String.eqb_eq. split; intros [H|H]; auto.
  Qed.

  Lemma lookup_None_notin {A} k (l : list (string * A)) : lookup k l = None -> ~ In k (map fst l).
  Proof.
    induction l as [|[k1 v1] l IH]; cbn [lookup map fst In]; [tauto|].
    destruct (String.eqb_spec k k1); [discriminate|]. intros H [E|Hin]; [congruence|]. now apply IH.
  Qed.

  Lemma lookup_Some_in {A} k (l : list (string * A)) v : lookup k l = Some v -> In k (map fst l).
  Proof.
    induction l as [|[k1 v1] l IH]; cbn [lookup map fst In]; [discriminate|].
    destruct (String.eqb_spec k k1) as [->|]; [now left|]. intros H. right. now apply IH.
  Qed.

  Lemma dict_set_fresh {A} (l : list (string * A)) k v : lookup k l = None -> dict_set l k v = (l ++ [(k, v)])%list.
  Proof.
    induction l as [|[k1 v1] l IH]; cbn [lookup dict_set app]; [reflexivity|].
    destruct (String.eqb_spec k k1); [discriminate|]. intros H. now rewrite IH.
  Qed.

  Lemma abs_app a b : abs (a ++ b)%list = (abs a ++ abs b)%list.
  Proof. unfold abs. apply filter_app. Qed.

  Lemma abs_del st k : is_dunder k = false -> abs (dict_del st k) = dict_del (abs st) k.
  Proof.
    intros Hk. unfold abs. induction st as [|[k1 v1] st IH]; [reflexivity|].
    cbn [dict_del]. destruct (String.eqb_spec k k1) as [->|Hne].
    - cbn [filter]. assert (V : visible (k1, v1) = true) by (unfold visible; cbn [fst]; now rewrite Hk).
      rewrite V. cbn [dict_del]. now rewrite String.eqb_refl.
    - cbn [filter]. destruct (visible (k1, v1)) eqn:V.
      + cbn [dict_del]. destruct (String.eqb_spec k k1); [contradiction|]. now rewrite IH.
      + exact IH.
  Qed.

  Lemma del_keys_subset {A} (l : list (string * A)) k x : In x (map fst (dict_del l k)) -> In x (map fst l).
  Proof.
    induction l as [|[k1 v1] l IH]; cbn [dict_del map fst In]; [tauto|].
    destruct (String.eqb_spec k k1); [intros; now right|]. cbn [map fst In]. intros [E|H]; [now left|right; auto].
  Qed.

  Lemma NoDup_del {A} (l : list (string * A)) k : NoDup (map fst l) -> NoDup (map fst (dict_del l k)).
  Proof.
    induction l as [|[k1 v1] l IH]; cbn [dict_del map fst]; intros H; [constructor|].
    inversion H as [|? ? Hni Hnd]; subst. destruct (String.eqb_spec k k1); [assumption|].
    cbn [map fst]. constructor; [|auto]. intros Hin. apply Hni. eapply del_keys_subset; eassumption.
  Qed.

  (* reverse lookup: searching the listed names by attribute value = searching the dictionary's pairs *)
  Lemma find_rev st v : NoDup (map fst st) ->
    (match find (fun k => match lookup k st with Some w => evalue_eqb w v | None => false end) (map fst (abs st)) with
     | Some k => k | None => "" end) =
    (match find (fun kv => evalue_eqb (snd kv) v) (abs st) with Some kv => fst kv | None => "" end).
  Proof.
    intros Hnd.
    assert (H : forall l, (forall k w, In (k, w) l -> lookup k st = Some w) ->
      (match find (fun k => match lookup k st with Some w => evalue_eqb w v | None => false end) (map fst l) with
       | Some k => k | None => "" end) =
      (match find (fun kv => evalue_eqb (snd kv) v) l with Some kv => fst kv | None => "" end)).
    { induction l as [|[k w] l IH]; intros Hl; cbn [map fst find snd]; [reflexivity|].
      rewrite (Hl k w (or_introl eq_refl)). destruct (evalue_eqb w v); [reflexivity|].
      apply IH. intros; apply Hl; now right. }
    apply H. intros k w Hin. unfold abs in Hin. apply filter_In in Hin as [Hin _].
    clear H. induction st as [|[k1 w1] st IH]; [contradiction|]. cbn [map fst] in Hnd.
    inversion Hnd as [|? ? Hni Hnd']; subst. cbn [lookup]. destruct Hin as [E|Hin].
    - inversion E; subst. now rewrite String.eqb_refl.
    - destruct (String.eqb_spec k k1) as [->|]; [|auto].
      exfalso. apply Hni. change k1 with (fst (k1, w)). now apply in_map.
  Qed.

  Theorem step_refines st d o : Inv st d -> name_ok o = true ->
    let '(st', r) := e_step filt st o in let '(d', r') := d_step d o in r = r' /\ Inv st' d'.
  Proof.
    intros [Hd Hnd] Hn. subst d. destruct o as [k v|k|k|v|]; cbn [name_ok] in Hn; cbn [e_step d_step].
    - (* add *)
      apply negb_true_iff in Hn. unfold e_add. rewrite keys_abs.
      destruct (lookup k (abs st)) as [w|] eqn:Hl.
      + assert (M : mem k (map fst (abs st)) = true) by (apply mem_In; eapply lookup_Some_in; eassumption).
        rewrite M. split; [reflexivity|]. split; [reflexivity|assumption].
      + assert (M : mem k (map fst (abs st)) = false).
        { destruct (mem k (map fst (abs st))) eqn:E; [|reflexivity]. apply mem_In in E.
          exfalso. eapply lookup_None_notin; eassumption. }
        rewrite M. split; [reflexivity|].
        rewrite lookup_abs in Hl by assumption. rewrite (dict_set_fresh st k v Hl).
        split.
        * rewrite abs_app. f_equal. unfold abs. cbn [filter]. unfold visible. cbn [fst]. now rewrite Hn.
        * rewrite map_app. cbn [map fst].
          assert (Hni : ~ In k (map fst st)) by (now apply lookup_None_notin).
          clear - Hnd Hni. induction st as [|[k1 v1] st IH]; cbn [map fst app]; [constructor; [tauto|constructor]|].
          inversion Hnd as [|? ? H1 H2]; subst. constructor.
          -- intros Hin. apply in_app_or in Hin as [Hin|[E|[]]]; [contradiction|]. subst. apply Hni. now left.
          -- apply IH; [assumption|]. intros Hin. apply Hni. now right.
    - (* remove *)
      apply negb_true_iff in Hn. unfold e_remove. rewrite lookup_abs by assumption.
      destruct (lookup k st) as [w|] eqn:Hl.
      + split; [reflexivity|]. split; [now rewrite abs_del|now apply NoDup_del].
      + split; [reflexivity|]. split; [reflexivity|assumption].
    - (* getattr *)
      apply negb_true_iff in Hn. unfold e_getattr. rewrite lookup_abs by assumption.
      destruct (lookup k st); (split; [reflexivity|split; [reflexivity|assumption]]).
    - (* reverse lookup *)
      split; [|split; [reflexivity|assumption]]. unfold e_getitem. rewrite keys_abs. f_equal. now apply find_rev.
    - (* keys *)
      split; [|split; [reflexivity|assumption]]. now rewrite keys_abs.
  Qed.

  Theorem run_refines ops : forall st d, Inv st d -> forallb name_ok ops = true ->
    snd (e_run filt st ops) = snd (d_run d ops) /\ Inv (fst (e_run filt st ops)) (fst (d_run d ops)).
  Proof.
    induction ops as [|o ops IH]; intros st d HI Hn; cbn [e_run d_run]; [cbn [fst snd]; auto|].
    cbn [forallb] in Hn. apply andb_prop in Hn as [Ho Hn].
    pose proof (step_refines st d o HI Ho) as Hs.
    destruct (e_step filt st o) as [st1 r]. destruct (d_step d o) as [d1 r'].
    destruct Hs as [-> HI1]. specialize (IH st1 d1 HI1 Hn).
    destruct (e_run filt st1 ops) as [st2 rs]. destruct (d_run d1 ops) as [d2 rs'].
    cbn [fst snd] in *. destruct IH as [-> HI2]. auto.
  Qed.

  (* a freshly built enumeration exposes exactly the supplied names with their values *)
  Lemma new_inv m : NoDup (map fst m) -> forallb visible m = true -> Inv (e_new m) m.
  Proof.
    intros Hnd Hv. unfold Inv, e_new. split.
    - rewrite abs_app. unfold abs at 2. cbn. rewrite app_nil_r. unfold abs.
      symmetry. clear Hnd. induction m as [|kv m IH]; cbn [filter forallb] in *; [reflexivity|].
      apply andb_prop in Hv as [A B]. rewrite A. f_equal. now apply IH.
    - rewrite map_app. cbn [hidden_attrs map fst].
      assert (Hh : forall k, In k ["__module__"; "__dict__"; "__weakref__"; "__doc__"] -> ~ In k (map fst m)).
      { intros k Hk Hin. apply in_map_iff in Hin as ([k' v] & E & Hin). cbn [fst] in E. subst k'.
        rewrite forallb_forall in Hv. specialize (Hv _ Hin). unfold visible in Hv. cbn [fst] in Hv.
        destruct Hk as [<-|[<-|[<-|[<-|[]]]]]; discriminate. }
      clear Hv. induction m as [|[k v] m IH]; cbn [map fst app].
      + repeat constructor; cbn [In]; intuition discriminate.
      + inversion Hnd as [|? ? H1 H2]; subst. constructor.
        * intros Hin. apply in_app_or in Hin as [Hin|Hin]; [contradiction|].
          apply (Hh k Hin). now left.
        * apply IH; [assumption|]. intros k' Hk' Hin. apply (Hh k' Hk'). now right.
  Qed.
End Refine.
