(* Proofs/PyTotal2.v — every-input theorems for the REGENERATED decoders whose descriptors carry their own length (the loop stride is read
   from the buffer): whatever the bytes say — a length of zero, a length that runs past the end, a truncated descriptor — the loop
   consumes at least the fixed part of a descriptor per iteration, returns within len + c iterations and never raises. *)
From Coq Require Import String ZArith List Bool Lia.
From PS Require Import Base.Bytes Base.Result Model.Converter Model.Py Proofs.FacadeState Proofs.PyLemmas Proofs.PyParsers Proofs.PyTotal Gen.Tables Gen.PyFuncs.
Import ListNotations.
Set Default Timeout 120.
Open Scope string_scope.
Open Scope nat_scope.

Local Arguments ba_to_int : simpl never.
Local Arguments py_slice : simpl never.
Local Arguments decode_bits : simpl never.
Local Arguments decode_total : simpl never.
Local Arguments dict_update : simpl never.
Local Arguments dict_of_decoded : simpl never.
Local Arguments run : simpl never.
Local Arguments call_with : simpl never.
Local Arguments Z.add : simpl never.
Local Arguments Z.of_N : simpl never.
Local Arguments Z.of_nat : simpl never.
Local Arguments Z.eqb : simpl never.
Local Arguments length : simpl never.
Local Arguments app : simpl never.
Local Arguments map : simpl never.
Local Arguments clip : simpl never.
Local Arguments firstn : simpl never.
Local Arguments skipn : simpl never.

(* ---------------------------------------------------------------- REPORT PRIORITY, every input *)
Definition rp_fields (rest : bytes) : list (string * pv) := dict_of_decoded (decode_total rest T_rpri).
Definition rp_adlen (rest : bytes) : Z := match lookup "adlen" (rp_fields rest) with Some (PInt z) => z | _ => 0%Z end.

Lemma rp_adlen_spec rest : lookup "adlen" (rp_fields rest) = Some (PInt (rp_adlen rest)) /\ (0 <= rp_adlen rest)%Z.
Proof.
  unfold rp_adlen, rp_fields, decode_total, T_rpri, T_scsi_cdb_report_priority__ReportPriority___data_bits. cbn.
  split; [reflexivity|apply N2Z.is_nonneg].
Qed.

Lemma rp_fields_names rest : map fst (rp_fields rest) = map fst T_rpri.
Proof. unfold rp_fields, dict_of_decoded. rewrite map_map. cbn [fst]. apply decode_total_names, rpri_wf. Qed.

Definition rp_stride (rest : bytes) : nat := Z.to_nat (rp_adlen rest + 8).
Lemma rp_stride_pos rest : 8 <= rp_stride rest.
Proof. unfold rp_stride. pose proof (rp_adlen_spec rest) as [_ H]. lia. Qed.

(* the successive remainders of the buffer, each starting at a descriptor *)
Fixpoint rp_suffixes (fuel : nat) (rest : bytes) : list bytes :=
  match fuel with
  | O => []
  | S f => match rest with [] => [] | _ => rest :: rp_suffixes f (skipn (rp_stride rest) rest) end
  end.

Lemma rp_suffixes_nil fuel : rp_suffixes fuel [] = [].
Proof. destruct fuel; reflexivity. Qed.
Lemma rp_suffixes_cons fuel l : l <> [] -> rp_suffixes (S fuel) l = l :: rp_suffixes fuel (skipn (rp_stride l) l).
Proof. destruct l; [congruence|reflexivity]. Qed.
Lemma rp_suffixes_length fuel l : length (rp_suffixes fuel l) <= fuel.
Proof.
  revert l. induction fuel as [|f IH]; intros l; [reflexivity|]. destruct l as [|a l]; [rewrite rp_suffixes_nil; change (length (@nil bytes)) with 0; lia|].
  rewrite rp_suffixes_cons by discriminate.
  match goal with |- length (?x :: ?t) <= _ => change (length (x :: t)) with (S (length t)) end.
  specialize (IH (skipn (rp_stride (a :: l)) (a :: l))). lia.
Qed.
Lemma rp_suffixes_more_fuel l : forall f1 f2, length l <= f1 -> length l <= f2 -> rp_suffixes f1 l = rp_suffixes f2 l.
Proof.
  intros f1. revert l. induction f1 as [|f1 IH]; intros l f2 H1 H2.
  - destruct l; [now rewrite !rp_suffixes_nil|]. change (length (n :: l)) with (S (length l)) in H1. lia.
  - destruct l as [|a l]; [now rewrite !rp_suffixes_nil|]. destruct f2 as [|f2]; [change (length (a :: l)) with (S (length l)) in H2; lia|].
    rewrite !rp_suffixes_cons by discriminate. f_equal.
    pose proof (skipn_shorter (a :: l) (rp_stride (a :: l)) ltac:(discriminate) ltac:(pose proof (rp_stride_pos (a :: l)); lia)). apply IH; lia.
Qed.

(* what the decoder makes of the descriptor at the head of a remainder: the three fields, and as TransportID whatever lies between byte 8
   and byte 8 + ADDITIONAL LENGTH (clipped to the buffer) *)
Definition rp_desc (rest : bytes) : pv :=
  PDict (rp_fields rest ++ [("transport_id", PBytes (py_slice rest (Some 8%Z) (Some (8 + rp_adlen rest)%Z)))])%list.

Definition rp_inv_all (total : list bytes) (ds : list bytes) (ρ : env) : Prop :=
  exists rest done, ds = rp_suffixes (length rest) rest /\ total = (done ++ ds)%list /\
    lookup "_data" ρ = Some (PBytes rest) /\ lookup "_descriptors" ρ = Some (PList (map rp_desc done)) /\ lookup "result" ρ = Some (PDict []).

Theorem reportpriority_total : forall (data : bytes) f, length data + 3 <= f ->
  let announced := py_slice data (Some 4%Z) (Some (Z.of_N (ba_to_int (py_slice data None (Some 4%Z))) + 4)%Z) in
  call_fun all_tables py_program f RPRI [PBytes data] =
  Ok (PDict [("priority_descriptors", PList (map rp_desc (rp_suffixes (length announced) announced)))]).
Proof.
  intros data f Hf announced.
  unfold call_fun, call_with. rewrite rpri_lookup. cbn [fn_params bind_params PF_rpri].
  destruct f as [|[|f]]; try lia. rewrite run_S, exec_if. cbn [eval truthy].
  cbn [fn_body PF_rpri].
  step. step. cbn [lookup String.eqb Ascii.eqb Bool.eqb slice_eval opt_int as_int bin_eval]. fold announced.
  step.
  rewrite exec_block_cons, <- run_S.
  assert (Hal : length announced <= length data).
  { unfold announced, py_slice. destruct (clip (length data) 4); rewrite firstn_length, ?skipn_length; lia. }
  pose proof (while_consumes all_tables py_program (ELen (EVar "_data")) (while_body PF_rpri 3) _ (rp_inv_all (rp_suffixes (length announced) announced)) 0) as W.
  match goal with |- context [run _ _ _ (SWhile _ _) ?r0] =>
    destruct (W) with (ds := rp_suffixes (length announced) announced) (f := S f) (ρ := r0) as (ρ' & Hrun & Hinv) end.
  - intros f0 ds ρ (rest & done & Hds & Htot & Hd & Hl & Hr). cbn [eval]. rewrite Hd. cbn [len_eval]. eexists. split; [reflexivity|]. cbn [truthy].
    destruct rest as [|a rest]; [rewrite Hds, rp_suffixes_nil; reflexivity|].
    change (length (a :: rest)) with (S (length rest)) in *. rewrite Hds. rewrite rp_suffixes_cons by discriminate.
    destruct (Z.eqb_spec (Z.of_nat (S (length rest))) 0); [lia|reflexivity].
  - intros f0 d ds ρ _ (rest & done & Hds & Htot & Hd & Hl & Hr).
    destruct rest as [|a rest]; [rewrite rp_suffixes_nil in Hds; discriminate|].
    change (length (a :: rest)) with (S (length rest)) in Hds. rewrite rp_suffixes_cons in Hds by discriminate. injection Hds as -> ->.
    set (R := a :: rest) in *.
    destruct (rp_adlen_spec R) as [Had Hnn].
    cbn [while_body fn_body nth PF_rpri].
    step. step. rewrite Hd. rewrite rpri_table.
    rewrite decode_bits_total by apply rpri_wf. unfold with_var. lk. fold (rp_fields R).
    assert (Hn : names_distinct (map fst (rp_fields R)) = true) by (rewrite rp_fields_names; apply rpri_wf).
    rewrite (dict_update_nil _ Hn).
    step. rewrite Hd. cbn [index_eval]. rewrite Had. cbn [bin_eval as_int slice_eval opt_int].
    unfold with_var. lk. cbn [update_at set_item].
    rewrite (dict_set_fresh (rp_fields R)) by (apply lookup_not_in; rewrite rp_fields_names; apply rpri_wf).
    step. unfold with_var. lk. rewrite Hl. cbn [update_at].
    step. rewrite Hd. cbn [index_eval]. rewrite (lookup_app_some _ _ _ _ Had). cbn [bin_eval as_int slice_eval opt_int].
    replace (rp_adlen R + 8)%Z with (Z.of_nat (rp_stride R)) by (unfold rp_stride; lia). rewrite py_slice_from.
    rewrite exec_block_nil. eexists. split; [reflexivity|].
    exists (skipn (rp_stride R) R), (done ++ [R])%list. repeat split; lk.
    + pose proof (skipn_shorter R (rp_stride R) ltac:(discriminate) ltac:(pose proof (rp_stride_pos R); lia)) as H.
      change (length R) with (S (length rest)) in H. apply rp_suffixes_more_fuel; lia.
    + rewrite Htot, <- app_assoc. reflexivity.
    + reflexivity.
    + rewrite map_app. reflexivity.
    + exact Hr.
  - pose proof (rp_suffixes_length (length announced) announced). lia.
  - exists announced, []. repeat split; lk; reflexivity.
  - cbn [while_body while_cond fn_body nth PF_rpri] in Hrun. rewrite Hrun. clear Hrun.
    destruct Hinv as (rest & done & Hds & Htot & Hd & Hl & Hr).
    rewrite app_nil_r in Htot. subst done.
    step. unfold with_var. rewrite Hr, Hl. cbn [update_at dict_update fold_left dict_set fst snd].
    step. cbn [truthy]. reflexivity.
Qed.

(* ---------------------------------------------------------------- REPORT TARGET PORT GROUPS, every input (nested loops) *)
Fixpoint port_suffixes (k : nat) (rest : bytes) : list bytes :=
  match k with
  | O => []
  | S k' => match rest with [] => [] | _ => rest :: port_suffixes k' (skipn 4 rest) end
  end.
Fixpoint port_rest (k : nat) (rest : bytes) : bytes :=
  match k with
  | O => rest
  | S k' => match rest with [] => [] | _ => port_rest k' (skipn 4 rest) end
  end.

Lemma port_suffixes_done k rest : port_suffixes k rest = [] -> port_rest k rest = rest.
Proof. destruct k; [reflexivity|]. destruct rest; [reflexivity|discriminate]. Qed.
Lemma port_rest_length k : forall rest, length (port_rest k rest) <= length rest.
Proof.
  induction k as [|k IH]; intros rest; [reflexivity|]. destruct rest as [|a rest]; [reflexivity|]. cbn [port_rest].
  specialize (IH (skipn 4 (a :: rest))). pose proof (skipn_shorter (a :: rest) 4 ltac:(discriminate) ltac:(lia)). lia.
Qed.
Lemma port_suffixes_length k : forall rest, length (port_suffixes k rest) <= length rest.
Proof.
  induction k as [|k IH]; intros rest; [change (length (port_suffixes 0 rest)) with 0; lia|]. destruct rest as [|a rest]; [reflexivity|]. cbn [port_suffixes].
  match goal with |- length (?x :: ?t) <= _ => change (length (x :: t)) with (S (length t)) end.
  specialize (IH (skipn 4 (a :: rest))). pose proof (skipn_shorter (a :: rest) 4 ltac:(discriminate) ltac:(lia)). lia.
Qed.

Definition tg_fields (R : bytes) : list (string * pv) := dict_of_decoded (decode_total R T_tpgd).
Definition tg_count (R : bytes) : Z := match lookup "target_port_count" (tg_fields R) with Some (PInt z) => z | _ => 0%Z end.
Lemma tg_count_spec R : lookup "target_port_count" (tg_fields R) = Some (PInt (tg_count R)) /\ (0 <= tg_count R)%Z.
Proof.
  unfold tg_count, tg_fields, decode_total, T_tpgd, T_scsi_cdb_report_target_port_groups__ReportTargetPortGroups___tpgd_bits. cbn.
  split; [reflexivity|apply N2Z.is_nonneg].
Qed.
Lemma tg_fields_names R : map fst (tg_fields R) = map fst T_tpgd.
Proof. unfold tg_fields, dict_of_decoded. rewrite map_map. cbn [fst]. apply decode_total_names, rtpg_wf. Qed.

Definition port_desc (p : bytes) : pv := PDict [("relative_target_port_id", PInt (Z.of_N (ba_to_int (py_slice p (Some 2%Z) (Some 4%Z)))))].
Definition tg_ports (R : bytes) : list bytes := port_suffixes (Z.to_nat (tg_count R)) (skipn 8 R).
Definition tg_next (R : bytes) : bytes := port_rest (Z.to_nat (tg_count R)) (skipn 8 R).
Definition tg_desc (R : bytes) : pv := PDict (tg_fields R ++ [("target_ports", PList (map port_desc (tg_ports R)))])%list.

Lemma tg_next_shorter R : R <> [] -> length (tg_next R) < length R.
Proof.
  intros H. unfold tg_next. pose proof (port_rest_length (Z.to_nat (tg_count R)) (skipn 8 R)).
  pose proof (skipn_shorter R 8 H ltac:(lia)). lia.
Qed.

Fixpoint tg_suffixes (fuel : nat) (R : bytes) : list bytes :=
  match fuel with
  | O => []
  | S f => match R with [] => [] | _ => R :: tg_suffixes f (tg_next R) end
  end.
Lemma tg_suffixes_nil fuel : tg_suffixes fuel [] = [].
Proof. destruct fuel; reflexivity. Qed.
Lemma tg_suffixes_cons fuel l : l <> [] -> tg_suffixes (S fuel) l = l :: tg_suffixes fuel (tg_next l).
Proof. destruct l; [congruence|reflexivity]. Qed.
Lemma tg_suffixes_length fuel l : length (tg_suffixes fuel l) <= fuel.
Proof.
  revert l. induction fuel as [|f IH]; intros l; [reflexivity|]. destruct l as [|a l]; [rewrite tg_suffixes_nil; change (length (@nil bytes)) with 0; lia|].
  rewrite tg_suffixes_cons by discriminate.
  match goal with |- length (?x :: ?t) <= _ => change (length (x :: t)) with (S (length t)) end.
  specialize (IH (tg_next (a :: l))). lia.
Qed.
Lemma tg_suffixes_more_fuel l : forall f1 f2, length l <= f1 -> length l <= f2 -> tg_suffixes f1 l = tg_suffixes f2 l.
Proof.
  intros f1. revert l. induction f1 as [|f1 IH]; intros l f2 H1 H2.
  - destruct l; [now rewrite !tg_suffixes_nil|]. change (length (n :: l)) with (S (length l)) in H1. lia.
  - destruct l as [|a l]; [now rewrite !tg_suffixes_nil|]. destruct f2 as [|f2]; [change (length (a :: l)) with (S (length l)) in H2; lia|].
    rewrite !tg_suffixes_cons by discriminate. f_equal.
    pose proof (tg_next_shorter (a :: l) ltac:(discriminate)). apply IH; lia.
Qed.
(* every remainder the outer loop sees is no longer than the buffer *)
Lemma tg_suffixes_bound fuel : forall l x, In x (tg_suffixes fuel l) -> length x <= length l.
Proof.
  induction fuel as [|f IH]; intros l x H; [destruct H|]. destruct l as [|a l]; [destruct H|].
  rewrite tg_suffixes_cons in H by discriminate. destruct H as [<-|H]; [lia|].
  apply IH in H. pose proof (tg_next_shorter (a :: l) ltac:(discriminate)). lia.
Qed.

(* inner loop *)
Definition tgi_inv (R : bytes) (acc res : pv) (total : list bytes) (ps : list bytes) (ρ : env) : Prop :=
  exists rest done k, ps = port_suffixes k rest /\ total = (done ++ ps)%list /\ k + length done = Z.to_nat (tg_count R) /\
    port_rest k rest = tg_next R /\
    lookup "_data" ρ = Some (PBytes rest) /\ lookup "_tp_descriptors" ρ = Some (PList (map port_desc done)) /\
    lookup "_tpgd" ρ = Some (PDict (tg_fields R)) /\ lookup "_tpg_descriptors" ρ = Some acc /\ lookup "result" ρ = Some res.

Lemma tgi_cond R acc res total call ps ρ : tgi_inv R acc res total ps ρ ->
  exists v, eval call ρ rtpg_inner_cond = Ok v /\ truthy v = match ps with [] => false | _ => true end.
Proof.
  intros (rest & done & k & Hps & Htot & Hk & Hrest & Hd & Htp & Hg & Hacc & Hres).
  destruct (tg_count_spec R) as [Hc Hnn].
  cbn [rtpg_inner_cond rtpg_inner_loop while_body fn_body nth PF_rtpg eval]. rewrite Hd. cbn [len_eval truthy].
  destruct rest as [|a rest].
  - change (Z.of_nat (length (@nil byte))) with 0%Z. change (0 =? 0)%Z with true. cbn [negb]. eexists. split; [reflexivity|].
    cbn [truthy]. change (0 =? 0)%Z with true. cbn [negb]. rewrite Hps. destruct k; reflexivity.
  - change (length (a :: rest)) with (S (length rest)).
    destruct (Z.eqb_spec (Z.of_nat (S (length rest))) 0) as [E|E]; [lia|]. cbn [negb].
    rewrite Htp, Hg. cbn [len_eval index_eval]. rewrite Hc. cbn [cmp_eval as_int]. eexists. split; [reflexivity|]. cbn [truthy].
    rewrite map_length, Hps.
    destruct (Z.ltb_spec (Z.of_nat (length done)) (tg_count R)) as [L|L]; destruct k; try reflexivity; cbn [port_suffixes]; lia.
Qed.

Lemma tgi_iter R acc res total call again p ps ρ : tgi_inv R acc res total (p :: ps) ρ ->
  exists ρ', exec_block all_tables call again rtpg_inner_body ρ = ONorm ρ' /\ tgi_inv R acc res total ps ρ'.
Proof.
  intros (rest & done & k & Hps & Htot & Hk & Hrest & Hd & Htp & Hg & Hacc & Hres).
  destruct k as [|k]; [discriminate|]. destruct rest as [|a rest]; [discriminate|]. cbn [port_suffixes] in Hps. injection Hps as -> ->.
  cbn [port_rest] in Hrest. set (P := a :: rest) in *.
  cbn [rtpg_inner_body rtpg_inner_loop while_body fn_body nth PF_rtpg].
  step. step. rewrite Hd. cbn [slice_eval opt_int as_int].
  unfold with_var. lk. cbn [update_at set_item dict_set].
  step. unfold with_var. lk. rewrite Htp. cbn [update_at].
  step. rewrite Hd. cbn [slice_eval opt_int as_int]. rewrite (py_slice_from P 4 : py_slice P (Some 4%Z) None = skipn 4 P).
  rewrite exec_block_nil. eexists. split; [reflexivity|].
  exists (skipn 4 P), (done ++ [P])%list, k. repeat split; lk; try assumption.
  - rewrite Htot, <- app_assoc. reflexivity.
  - rewrite app_length. change (length [P]) with 1. lia.
  - reflexivity.
  - rewrite map_app. reflexivity.
Qed.

Definition tg_inv_all (total : list bytes) (res : pv) (ds : list bytes) (ρ : env) : Prop :=
  exists rest done, ds = tg_suffixes (length rest) rest /\ total = (done ++ ds)%list /\
    lookup "_data" ρ = Some (PBytes rest) /\ lookup "_tpg_descriptors" ρ = Some (PList (map tg_desc done)) /\ lookup "result" ρ = Some res.

Lemma tg_iter total res f R ds ρ : length R <= f -> tg_inv_all total res (R :: ds) ρ ->
  exists ρ', exec_block all_tables (call_with py_program (run all_tables py_program f)) (run all_tables py_program f) rtpg_outer_body ρ = ONorm ρ'
    /\ tg_inv_all total res ds ρ'.
Proof.
  intros Hf (rest & done & Hds & Htot & Hd & Hacc & Hres).
  destruct rest as [|a rest]; [rewrite tg_suffixes_nil in Hds; discriminate|].
  change (length (a :: rest)) with (S (length rest)) in Hds. rewrite tg_suffixes_cons in Hds by discriminate. injection Hds as -> ->.
  set (R := a :: rest) in *.
  destruct (tg_count_spec R) as [Hc Hnn].
  cbn [while_body fn_body nth PF_rtpg].
  step. step. rewrite Hd. rewrite (proj1 rtpg_tables).
  rewrite decode_bits_total by apply rtpg_wf. unfold with_var. lk. fold (tg_fields R).
  assert (Hn : names_distinct (map fst (tg_fields R)) = true) by (rewrite tg_fields_names; apply rtpg_wf).
  rewrite (dict_update_nil _ Hn).
  step. rewrite Hd. cbn [slice_eval opt_int as_int]. rewrite (py_slice_from R 8 : py_slice R (Some 8%Z) None = skipn 8 R).
  step.
  rewrite exec_block_cons, <- run_S.
  pose proof (port_suffixes_length (Z.to_nat (tg_count R)) (skipn 8 R)) as Hpl.
  pose proof (skipn_shorter R 8 ltac:(discriminate) ltac:(lia)) as Hsk.
  match goal with |- context [run _ _ (S f) _ ?ρ0] =>
    pose proof (while_consumes all_tables py_program rtpg_inner_cond rtpg_inner_body _
                  (tgi_inv R (PList (map tg_desc done)) res (tg_ports R)) 0
                  (fun f ps ρ H => tgi_cond R _ _ _ _ ps ρ H)
                  (fun f p ps ρ _ H => tgi_iter R _ _ _ _ _ p ps ρ H) (tg_ports R) f ρ0) as W
  end.
  cbn [rtpg_inner_cond rtpg_inner_body rtpg_inner_loop while_body fn_body nth PF_rtpg] in W.
  destruct W as (ρ1 & W & (rest1 & done1 & k1 & Hps1 & Htot1 & Hk1 & Hrest1 & Hd1 & Htp1 & Hg1 & Hacc1 & Hres1)).
  { unfold tg_ports. lia. }
  { exists (skipn 8 R), [], (Z.to_nat (tg_count R)). repeat split; lk; try assumption; try reflexivity.
    change (length (@nil bytes)) with 0. lia. }
  rewrite W. clear W. rewrite app_nil_r in Htot1. subst done1.
  symmetry in Hps1. apply port_suffixes_done in Hps1. rewrite Hps1 in Hrest1. subst rest1.
  step. unfold with_var. rewrite Htp1, Hg1. cbn [update_at set_item].
  rewrite (dict_set_fresh (tg_fields R)) by (apply lookup_not_in; rewrite tg_fields_names; apply rtpg_wf).
  step. unfold with_var. lk. rewrite Hacc1. cbn [update_at].
  rewrite exec_block_nil. eexists. split; [reflexivity|].
  exists (tg_next R), (done ++ [R])%list. repeat split; lk; try assumption.
  - pose proof (tg_next_shorter R ltac:(discriminate)) as H. change (length R) with (S (length rest)) in H. apply tg_suffixes_more_fuel; lia.
  - rewrite Htot, <- app_assoc. reflexivity.
  - rewrite map_app. reflexivity.
Qed.

Lemma tg_cond total res call ds ρ : tg_inv_all total res ds ρ ->
  exists v, eval call ρ (while_cond PF_rtpg 4) = Ok v /\ truthy v = match ds with [] => false | _ => true end.
Proof.
  intros (rest & done & Hds & Htot & Hd & Hacc & Hres).
  cbn [while_cond fn_body nth PF_rtpg eval]. rewrite Hd. cbn [len_eval].
  eexists. split; [reflexivity|]. cbn [truthy].
  destruct rest as [|a rest]; [rewrite Hds, tg_suffixes_nil; reflexivity|].
  change (length (a :: rest)) with (S (length rest)) in *. rewrite Hds. rewrite tg_suffixes_cons by discriminate.
  destruct (Z.eqb_spec (Z.of_nat (S (length rest))) 0); [lia|reflexivity].
Qed.

(* from `_tpg_descriptors = []` to the end of the function, whatever the remaining bytes are *)
Lemma rtpg_tail_total body r f ρ :
  2 * length body + 1 <= f ->
  lookup "_data" ρ = Some (PBytes body) -> lookup "result" ρ = Some (PDict r) ->
  exec_block all_tables (call_with py_program (run all_tables py_program f)) (run all_tables py_program f) (skipn 3 (fn_body PF_rtpg)) ρ =
  ORet (PDict (dict_update r [("target_port_group_descriptors", PList (map tg_desc (tg_suffixes (length body) body)))])).
Proof.
  intros Hf Hdata Hres.
  match goal with |- context [skipn 3 ?l] => let l' := eval cbv [skipn fn_body PF_rtpg] in (skipn 3 l) in change (skipn 3 l) with l' end.
  step. rewrite exec_block_cons. destruct f as [|f]; [lia|]. rewrite <- run_S.
  set (total := tg_suffixes (length body) body).
  match goal with |- context [run _ _ (S (S f)) _ ?ρ0] =>
    pose proof (while_consumes all_tables py_program (while_cond PF_rtpg 4) (while_body PF_rtpg 4) bytes (tg_inv_all total (PDict r)) (length body)
                  (fun f gs ρ H => tg_cond total _ _ gs ρ H)) as W;
    specialize (W (fun f g gs ρ Hm H => tg_iter total _ f g gs ρ
                     ltac:(destruct H as (rs & dn & Hs & Ht & _);
                           assert (In g total) by (rewrite Ht; apply in_or_app; right; left; reflexivity);
                           eapply Nat.le_trans; [eapply tg_suffixes_bound; eassumption|exact Hm]) H)
                  total (S f) ρ0)
  end.
  cbn [while_cond while_body fn_body nth PF_rtpg] in W.
  destruct W as (ρ1 & W & (rest1 & done & Hds & Htot & _ & Hacc1 & Hres1)).
  { pose proof (tg_suffixes_length (length body) body). unfold total. lia. }
  { exists body, []. repeat split; lk; try assumption; reflexivity. }
  rewrite W. clear W. rewrite app_nil_r in Htot. subst done.
  step. unfold with_var. rewrite Hacc1, Hres1. cbn [update_at].
  step. reflexivity.
Qed.

Definition ext_fields (A : bytes) : list (string * pv) := dict_of_decoded (decode_total A T_ext).
Definition ext_ft (A : bytes) : Z := match lookup "format_type" (ext_fields A) with Some (PInt z) => z | _ => 0%Z end.
Definition ext_itt (A : bytes) : Z := match lookup "implicit_transition_time" (ext_fields A) with Some (PInt z) => z | _ => 0%Z end.
Lemma ext_spec A : lookup "format_type" (ext_fields A) = Some (PInt (ext_ft A)) /\
                   lookup "implicit_transition_time" (ext_fields A) = Some (PInt (ext_itt A)).
Proof.
  unfold ext_ft, ext_itt, ext_fields, decode_total, T_ext, T_scsi_cdb_report_target_port_groups__ReportTargetPortGroups___ext_hdr_bits. cbn.
  split; reflexivity.
Qed.

(* what the header part of the decoder does with the announced bytes: the header fields it reports, and where the descriptors start *)
Definition rtpg_header (A : bytes) : list (string * pv) * bytes :=
  if (4 <=? Z.of_nat (length A))%Z then
    if (ext_ft A =? 1)%Z then ([("format_type", PInt 1); ("implicit_transition_time", PInt (ext_itt A))], skipn 4 A)
    else ([("format_type", PInt (ext_ft A))], A)
  else ([("format_type", PInt 0)], A).

Theorem rtpg_total : forall (data : bytes) f, 2 * length data + 4 <= f ->
  let announced := py_slice data (Some 4%Z) (Some (Z.of_N (ba_to_int (py_slice data None (Some 4%Z))) + 4)%Z) in
  let body := snd (rtpg_header announced) in
  call_fun all_tables py_program f RTPG [PBytes data] =
  Ok (PDict (fst (rtpg_header announced) ++ [("target_port_group_descriptors", PList (map tg_desc (tg_suffixes (length body) body)))])%list).
Proof.
  intros data f Hf announced body.
  assert (Hal : length announced <= length data).
  { unfold announced, py_slice. destruct (clip (length data) 4); rewrite firstn_length, ?skipn_length; lia. }
  unfold call_fun, call_with. rewrite rtpg_lookup. cbn [fn_params bind_params PF_rtpg].
  destruct f as [|f]; [lia|]. rewrite run_S, exec_if. cbn [eval truthy]. cbn [fn_body PF_rtpg].
  step. step. cbn [lookup String.eqb Ascii.eqb Bool.eqb slice_eval opt_int as_int bin_eval]. fold announced.
  rewrite exec_block_cons, exec_if. cbn [eval]. lk. cbn [len_eval cmp_eval as_int].
  unfold body, rtpg_header.
  destruct (Z.leb_spec 4 (Z.of_nat (length announced))) as [H4|H4]; cbn [truthy].
  - destruct (ext_spec announced) as [Hft Hitt].
    step. step. lk. rewrite (proj2 rtpg_tables).
    rewrite decode_bits_total by apply rtpg_wf. unfold with_var. lk. fold (ext_fields announced).
    rewrite dict_update_nil by (unfold ext_fields, dict_of_decoded; rewrite map_map; cbn [fst]; rewrite decode_total_names by apply rtpg_wf; apply rtpg_wf).
    step. cbn [index_eval]. rewrite Hft. unfold with_var. lk. cbn [update_at set_item dict_set].
    rewrite exec_block_cons, exec_if. cbn [eval]. lk. cbn [index_eval]. rewrite Hft. cbn [cmp_eval py_eq as_int].
    destruct (Z.eqb_spec (ext_ft announced) 1) as [E|E]; cbn [truthy].
    + step. cbn [index_eval]. rewrite Hitt. unfold with_var. lk. cbn [update_at set_item dict_set String.eqb Ascii.eqb Bool.eqb].
      step. cbn [lookup String.eqb Ascii.eqb Bool.eqb slice_eval opt_int as_int]. rewrite (py_slice_from announced 4 : py_slice announced (Some 4%Z) None = skipn 4 announced).
      rewrite !exec_block_nil.
      match goal with |- context [exec_block _ _ _ ?blk ?ρ0] =>
        change blk with (skipn 3 (fn_body PF_rtpg));
        rewrite (rtpg_tail_total (skipn 4 announced) [("format_type", PInt (ext_ft announced)); ("implicit_transition_time", PInt (ext_itt announced))] f ρ0) end;
        [rewrite E; reflexivity| |first [reflexivity|lk; reflexivity]|first [reflexivity|lk; reflexivity]].
      rewrite skipn_length. lia.
    + rewrite !exec_block_nil.
      match goal with |- context [exec_block _ _ _ ?blk ?ρ0] =>
        change blk with (skipn 3 (fn_body PF_rtpg));
        rewrite (rtpg_tail_total announced [("format_type", PInt (ext_ft announced))] f ρ0) end;
        [reflexivity|lia|first [reflexivity|lk; reflexivity]|first [reflexivity|lk; reflexivity]].
  - step. unfold with_var. lk. cbn [update_at set_item dict_set]. rewrite !exec_block_nil.
    match goal with |- context [exec_block _ _ _ ?blk ?ρ0] =>
      change blk with (skipn 3 (fn_body PF_rtpg));
      rewrite (rtpg_tail_total announced [("format_type", PInt 0)] f ρ0) end;
      [reflexivity|lia|first [reflexivity|lk; reflexivity]|first [reflexivity|lk; reflexivity]].
Qed.
