(* Proofs/Codec.v — single-field laws of the bit-field codec, at the bit level.
   For every buffer size, every contiguous mask at any alignment, every offset,
   every in-range value.  No bound anywhere. *)
From Coq Require Import String.
From PS Require Import Base.Bytes Base.Result Model.Converter.
Set Default Timeout 60.

(* ------------------------------------------------------------------ *)
(* geometry of a field inside an n-byte buffer seen as one big-endian  *)
(* integer X = ba_to_int buf: the field is bits [lo, lo+w) of X.       *)

Definition contiguous (m : N) : bool :=
  match ctz m with
  | None => false
  | Some z => N.shiftr m z =? N.ones (N.size (N.shiftr m z))
  end.

Definition mwidth (m : N) : N :=
  match ctz m with None => 0 | Some z => N.size (N.shiftr m z) end.

Record geom := mkGeom { g_lo : N; g_w : N }.

Definition geom_of (n : nat) (f : fdesc) : option geom :=
  match f with
  | Mask m o =>
      match ctz m with
      | None => None
      | Some z =>
          if contiguous m && (N.to_nat o + nbytes m <=? n)%nat
          then Some (mkGeom (8 * N.of_nat (n - N.to_nat o - nbytes m) + z) (mwidth m))
          else None
      end
  | Blob u o len =>
      if (N.to_nat (o + len * u) <=? n)%nat
      then Some (mkGeom (8 * N.of_nat (n - N.to_nat (o + len * u))) (8 * (len * u)))
      else None
  end.

(* the integer carried by a value of the right kind for field f *)
Definition vint (f : fdesc) (v : value) : option N :=
  match f, v with
  | Mask _ _, VI x => Some x
  | Blob u _ len, VB b =>
      if (length b =? N.to_nat (len * u))%nat && bytes_okb b then Some (ba_to_int b) else None
  | _, _ => None
  end.

Definition in_field (g : geom) (j : N) : bool := (g_lo g <=? j) && (j <? g_lo g + g_w g).

(* ------------------------------------------------------------------ *)
(* facts about ctz / nbytes / width                                    *)

Lemma pos_ctz_bit p : N.testbit (Npos p) (pos_ctz p) = true.
Proof.
  induction p as [p IH|p IH|]; cbn [pos_ctz]; try reflexivity.
  change (Npos p~0) with (2 * Npos p). rewrite N.testbit_even_succ by lia. exact IH.
Qed.

Lemma pos_ctz_low p i : i < pos_ctz p -> N.testbit (Npos p) i = false.
Proof.
  revert i; induction p as [p IH|p IH|]; cbn [pos_ctz]; intros i Hi; try lia.
  change (Npos p~0) with (2 * Npos p).
  destruct (N.eq_dec i 0) as [->|Hne]; [apply N.testbit_even_0|].
  replace i with (N.succ (N.pred i)) by lia. rewrite N.testbit_even_succ by lia. apply IH. lia.
Qed.

Lemma ctz_bit m z : ctz m = Some z -> N.testbit m z = true.
Proof. destruct m as [|p]; cbn [ctz]; intros H; inversion H; subst. apply pos_ctz_bit. Qed.

Lemma ctz_low m z i : ctz m = Some z -> i < z -> N.testbit m i = false.
Proof. destruct m as [|p]; cbn [ctz]; intros H; inversion H; subst. apply pos_ctz_low. Qed.

Lemma ctz_shr_nz m z : ctz m = Some z -> N.shiftr m z <> 0.
Proof.
  intros H E. pose proof (ctz_bit m z H) as B.
  assert (B0 : N.testbit (N.shiftr m z) 0 = true) by (rewrite N.shiftr_spec by lia; now rewrite N.add_0_l).
  rewrite E in B0. cbn in B0. discriminate.
Qed.

Lemma ctz_le_log2 m z : ctz m = Some z -> z <= N.log2 m.
Proof.
  intros H. pose proof (ctz_bit m z H) as B.
  destruct (N.le_gt_cases z (N.log2 m)) as [|G]; [assumption|].
  rewrite N.bits_above_log2 in B by assumption. discriminate.
Qed.

Lemma size_eq m : m <> 0 -> N.size m = N.succ (N.log2 m).
Proof. intros H. destruct m; [congruence|]. apply N.size_log2. discriminate. Qed.

Lemma width_plus_ctz m z : ctz m = Some z -> mwidth m + z = N.size m.
Proof.
  intros H. unfold mwidth. rewrite H.
  assert (Hm : m <> 0) by (destruct m; [discriminate|discriminate]).
  rewrite (size_eq _ (ctz_shr_nz m z H)), (size_eq m Hm), N.log2_shiftr.
  pose proof (ctz_le_log2 m z H). lia.
Qed.

Lemma size_le_nbytes m : N.size m <= 8 * N.of_nat (nbytes m).
Proof.
  unfold nbytes. rewrite N2Nat.id.
  pose proof (N.div_mod (N.size m + 7) 8 ltac:(lia)) as D.
  pose proof (N.mod_lt (N.size m + 7) 8 ltac:(lia)). lia.
Qed.

Lemma width_fits m z : ctz m = Some z -> mwidth m + z <= 8 * N.of_nat (nbytes m).
Proof. intros H. rewrite (width_plus_ctz m z H). apply size_le_nbytes. Qed.

Lemma nbytes_pos m : (1 <= nbytes m)%nat.
Proof. unfold nbytes. lia. Qed.

(* ------------------------------------------------------------------ *)
(* byte-level decomposition                                            *)

Lemma split3 r o k : (o + k <= length r)%nat -> bytes_ok r ->
  let pre := firstn o r in let mid := slice r o (o + k) in let post := skipn (o + k) r in
  r = pre ++ mid ++ post /\ length pre = o /\ length mid = k /\
  length post = (length r - o - k)%nat /\ bytes_ok pre /\ bytes_ok mid /\ bytes_ok post.
Proof.
  intros H Hr pre mid post. unfold pre, mid, post, slice.
  replace (o + k - o)%nat with k by lia.
  repeat split.
  - rewrite <- (firstn_skipn o r) at 1. f_equal.
    rewrite <- (firstn_skipn k (skipn o r)) at 1. f_equal. now rewrite skipn_skipn'.
  - rewrite firstn_length. lia.
  - rewrite firstn_length, skipn_length. lia.
  - rewrite skipn_length. lia.
  - now apply bytes_ok_firstn.
  - now apply bytes_ok_firstn, bytes_ok_skipn.
  - now apply bytes_ok_skipn.
Qed.

(* bits of X = ba_to_int (pre ++ mid ++ post) *)
Lemma testbit_3 pre mid post j : bytes_ok mid -> bytes_ok post ->
  let p := 8 * N.of_nat (length post) in let k := 8 * N.of_nat (length mid) in
  N.testbit (ba_to_int (pre ++ mid ++ post)) j =
    if j <? p then N.testbit (ba_to_int post) j
    else if j - p <? k then N.testbit (ba_to_int mid) (j - p)
    else N.testbit (ba_to_int pre) (j - p - k).
Proof.
  intros Hm Hp p k. rewrite app_assoc, !ba_to_int_app, !pow256.
  pose proof (ba_to_int_bound post Hp) as Bp. rewrite pow256 in Bp.
  pose proof (ba_to_int_bound mid Hm) as Bm. rewrite pow256 in Bm.
  fold p k in Bp, Bm |- *.
  rewrite (testbit_concat _ _ p j Bp).
  destruct (j <? p); [reflexivity|].
  apply (testbit_concat _ _ k (j - p) Bm).
Qed.

(* ------------------------------------------------------------------ *)
(* xor_at at the integer level (python: result[off+i] ^= v[i])          *)

Lemma xor_list_length a b : length (xor_list a b) = length a.
Proof. revert b; induction a as [|x a IH]; intros [|y b]; cbn [xor_list length]; auto. Qed.

Lemma xor_list_ok a b : bytes_ok a -> bytes_ok b -> bytes_ok (xor_list a b).
Proof.
  intros Ha; revert b; induction Ha as [|x a Hx Ha IH]; intros b Hb; [constructor|].
  destruct b as [|y b]; cbn [xor_list]; [now constructor|].
  inversion Hb as [|? ? Hy Hb']; subst. constructor; [|now apply IH].
  change 256 with (2^8). apply lxor_lt; assumption.
Qed.

Lemma xor_list_int a b : length a = length b -> bytes_ok a -> bytes_ok b ->
  ba_to_int (xor_list a b) = N.lxor (ba_to_int a) (ba_to_int b).
Proof.
  revert b; induction a as [|x a IH]; intros [|y b] Hl Ha Hb; try discriminate; [reflexivity|].
  cbn [xor_list ba_to_int]. rewrite xor_list_length.
  injection Hl as Hl. inversion Ha as [|? ? Hx Ha']; inversion Hb as [|? ? Hy Hb']; subst.
  rewrite IH by assumption. rewrite <- Hl.
  pose proof (ba_to_int_bound a Ha') as Ba. pose proof (ba_to_int_bound b Hb') as Bb. rewrite <- Hl in Bb.
  rewrite pow256 in *. symmetry. now apply lxor_split.
Qed.

Lemma xor_at_length r off v : (off + length v <= length r)%nat -> length (xor_at r off v) = length r.
Proof.
  intros H. unfold xor_at. rewrite !app_length, xor_list_length, !firstn_length, !skipn_length. lia.
Qed.

Lemma xor_at_ok r off v : bytes_ok r -> bytes_ok v -> bytes_ok (xor_at r off v).
Proof.
  intros Hr Hv. unfold xor_at. apply bytes_ok_app; split; [now apply bytes_ok_firstn|].
  apply bytes_ok_app; split; [|now apply bytes_ok_skipn].
  apply xor_list_ok; [now apply bytes_ok_firstn, bytes_ok_skipn|assumption].
Qed.

Theorem xor_at_int r off v :
  (off + length v <= length r)%nat -> bytes_ok r -> bytes_ok v ->
  ba_to_int (xor_at r off v) =
  N.lxor (ba_to_int r) (ba_to_int v * 256 ^ N.of_nat (length r - off - length v)).
Proof.
  intros Hlen Hr Hv. unfold xor_at.
  destruct (split3 r off (length v) Hlen Hr) as (Hr3 & Hpre & Hmid & Hpost & Hokpre & Hokm & Hokp).
  unfold slice in Hr3, Hmid, Hokm. replace (off + length v - off)%nat with (length v) in * by lia.
  set (pre := firstn off r) in *. set (mid := firstn (length v) (skipn off r)) in *.
  set (post := skipn (off + length v) r) in *.
  rewrite <- Hpost. rewrite Hr3 at 1.
  rewrite !ba_to_int_app, !app_length, xor_list_length.
  rewrite xor_list_int by (assumption || lia).
  set (P := 256 ^ N.of_nat (length post)).
  set (M := 256 ^ N.of_nat (length mid + length post)).
  assert (HP : P = 2 ^ (8 * N.of_nat (length post))) by (unfold P; now rewrite N.pow_mul_r).
  assert (HM : M = 2 ^ (8 * N.of_nat (length mid)) * P).
  { unfold M, P. rewrite Nat2N.inj_add, N.pow_add_r. f_equal. now rewrite N.pow_mul_r. }
  pose proof (ba_to_int_bound post Hokp) as Bp. fold P in Bp.
  pose proof (ba_to_int_bound mid Hokm) as Bm.
  pose proof (ba_to_int_bound v Hv) as Bv. rewrite <- Hmid in Bv.
  pose proof (lxor_lt (ba_to_int mid) (ba_to_int v) (8 * N.of_nat (length mid))) as Bx.
  rewrite N.pow_mul_r in Bx. specialize (Bx Bm Bv).
  replace (ba_to_int pre * M + (N.lxor (ba_to_int mid) (ba_to_int v) * P + ba_to_int post))
    with ((ba_to_int pre * 2 ^ (8 * N.of_nat (length mid)) + N.lxor (ba_to_int mid) (ba_to_int v)) * P + ba_to_int post) by (rewrite HM; lia).
  replace (ba_to_int pre * M + (ba_to_int mid * P + ba_to_int post))
    with ((ba_to_int pre * 2 ^ (8 * N.of_nat (length mid)) + ba_to_int mid) * P + ba_to_int post) by (rewrite HM; lia).
  replace (ba_to_int v * P) with ((0 * 2 ^ (8 * N.of_nat (length mid)) + ba_to_int v) * P + 0) by lia.
  rewrite HP in *.
  rewrite lxor_split; [| assumption | apply N.neq_0_lt_0, N.pow_nonzero; lia].
  rewrite N.lxor_0_r. f_equal.
  rewrite lxor_split; [| now rewrite N.pow_mul_r | now rewrite N.pow_mul_r].
  now rewrite N.lxor_0_r.
Qed.

(* bits of x * 2^lo *)
Lemma testbit_shifted x lo j :
  N.testbit (x * 2 ^ lo) j = if lo <=? j then N.testbit x (j - lo) else false.
Proof.
  destruct (N.leb_spec lo j) as [H|H].
  - now rewrite N.mul_pow2_bits_high.
  - now rewrite N.mul_pow2_bits_low.
Qed.

(* ------------------------------------------------------------------ *)
(* L1: what encoding one field does to the bits of the buffer          *)

Definition write_bit (f : fdesc) (g : geom) (x : N) (old : bool) (j : N) : bool :=
  match f with
  | Mask _ _ => xorb old (N.testbit x (j - g_lo g))
  | Blob _ _ _ => N.testbit x (j - g_lo g)
  end.

Theorem encode1_bits n r f g v x :
  geom_of n f = Some g -> length r = n -> bytes_ok r ->
  vint f v = Some x -> x < 2 ^ g_w g ->
  exists r', encode1 r f v = Ok r' /\ length r' = n /\ bytes_ok r' /\
    forall j, N.testbit (ba_to_int r') j =
              if in_field g j then write_bit f g x (N.testbit (ba_to_int r) j) j
              else N.testbit (ba_to_int r) j.
Proof.
  intros Hg Hlen Hr Hv Hx. destruct f as [m o|u o len]; destruct v as [xv|b]; try discriminate.
  - (* mask field *)
    cbn [vint] in Hv. inversion Hv; subst xv. clear Hv.
    cbn [geom_of] in Hg. destruct (ctz m) as [z|] eqn:Hz; [|discriminate].
    destruct (contiguous m && (N.to_nat o + nbytes m <=? n)%nat) eqn:Hc; [|discriminate].
    inversion Hg; subst g; clear Hg. cbn [g_lo g_w] in *.
    apply andb_prop in Hc as [Hcont Hb]. apply Nat.leb_le in Hb.
    cbn [encode1]. rewrite Hz. rewrite Hlen.
    assert (Hb' : (N.to_nat o + nbytes m <=? n)%nat = true) by now apply Nat.leb_le.
    rewrite Hb'.
    set (k := nbytes m) in *. set (vb := int_to_ba (N.shiftl x z) k).
    assert (Lv : length vb = k) by apply int_to_ba_length.
    assert (Ov : bytes_ok vb) by apply int_to_ba_ok.
    pose proof (width_fits m z Hz) as WF. fold k in WF.
    assert (Iv : ba_to_int vb = x * 2 ^ z).
    { unfold vb. rewrite ba_to_int_to_ba, N.shiftl_mul_pow2. apply N.mod_small.
      rewrite pow256. apply N.lt_le_trans with (2 ^ (mwidth m + z)).
      - rewrite N.pow_add_r. apply N.mul_lt_mono_pos_r; [apply N.neq_0_lt_0, N.pow_nonzero; lia|assumption].
      - apply N.pow_le_mono_r; lia. }
    exists (xor_at r (N.to_nat o) vb). split; [reflexivity|].
    split; [rewrite xor_at_length; lia|]. split; [now apply xor_at_ok|].
    intros j. rewrite xor_at_int by (assumption || lia).
    rewrite N.lxor_spec, Iv, Lv, Hlen, pow256, <- N.mul_assoc, <- N.pow_add_r.
    rewrite testbit_shifted.
    replace (z + 8 * N.of_nat (n - N.to_nat o - k)) with (8 * N.of_nat (n - N.to_nat o - k) + z) by lia.
    set (lo := 8 * N.of_nat (n - N.to_nat o - k) + z).
    unfold in_field, write_bit. cbn [g_lo g_w].
    destruct (N.leb_spec lo j) as [Hlo|Hlo]; cbn [andb].
    + destruct (N.ltb_spec j (lo + mwidth m)) as [Hhi|Hhi]; [reflexivity|].
      rewrite (bits_above x (mwidth m) (j - lo)) by (assumption || lia). now rewrite xorb_false_r.
    + now rewrite xorb_false_r.
  - (* blob field *)
    cbn [vint] in Hv.
    destruct ((length b =? N.to_nat (len * u))%nat && bytes_okb b) eqn:Hc; [|discriminate].
    inversion Hv; subst x; clear Hv. apply andb_prop in Hc as [Hl Hob].
    apply Nat.eqb_eq in Hl. apply bytes_okb_spec in Hob.
    cbn [geom_of] in Hg. destruct (N.to_nat (o + len * u) <=? n)%nat eqn:Hb; [|discriminate].
    inversion Hg; subst g; clear Hg. cbn [g_lo g_w] in *. apply Nat.leb_le in Hb.
    cbn [encode1].
    set (oo := N.to_nat o) in *. set (l := N.to_nat (len * u)) in *.
    assert (Hol : N.to_nat (o + len * u) = (oo + l)%nat) by (unfold oo, l; lia).
    rewrite Hol in *.
    assert (Hb2 : (oo + l <= length r)%nat) by lia.
    destruct (split3 r oo l Hb2 Hr) as (Hr3 & Hpre & Hmid & Hpost & Hokpre & Hokm & Hokp).
    set (pre := firstn oo r) in *. set (mid := slice r oo (oo + l)) in *. set (post := skipn (oo + l) r) in *.
    exists (pre ++ b ++ post). split; [reflexivity|].
    split; [rewrite !app_length; lia|].
    split; [apply bytes_ok_app; split; [assumption|apply bytes_ok_app; now split]|].
    intros j. rewrite Hr3. rewrite !testbit_3 by assumption.
    rewrite Hmid, Hl, Hpost, Hlen.
    unfold in_field, write_bit. cbn [g_lo g_w].
    replace (8 * (len * u)) with (8 * N.of_nat l) by (unfold l; lia).
    replace (n - (oo + l))%nat with (n - oo - l)%nat by lia.
    set (p := 8 * N.of_nat (n - oo - l)).
    destruct (N.ltb_spec j p) as [H1|H1].
    + destruct (N.leb_spec p j); [lia|]. reflexivity.
    + destruct (N.leb_spec p j); [|lia]. cbn [andb].
      destruct (N.ltb_spec (j - p) (8 * N.of_nat l)) as [H2|H2];
      destruct (N.ltb_spec j (p + 8 * N.of_nat l)) as [H3|H3]; try lia; reflexivity.
Qed.

(* ------------------------------------------------------------------ *)
(* L2: what decoding one field reads                                   *)

Theorem decode1_bits n r f g :
  geom_of n f = Some g -> length r = n -> bytes_ok r ->
  exists v x, decode1 r f = Ok v /\ vint f v = Some x /\ x < 2 ^ g_w g /\
    forall i, N.testbit x i = (i <? g_w g) && N.testbit (ba_to_int r) (g_lo g + i).
Proof.
  intros Hg Hlen Hr. destruct f as [m o|u o len].
  - cbn [geom_of] in Hg. destruct (ctz m) as [z|] eqn:Hz; [|discriminate].
    destruct (contiguous m && (N.to_nat o + nbytes m <=? n)%nat) eqn:Hc; [|discriminate].
    inversion Hg; subst g; clear Hg. cbn [g_lo g_w] in *.
    apply andb_prop in Hc as [Hcont Hb]. apply Nat.leb_le in Hb.
    unfold contiguous in Hcont. rewrite Hz in Hcont. apply N.eqb_eq in Hcont.
    cbn [decode1]. rewrite Hz.
    set (k := nbytes m) in *. set (oo := N.to_nat o) in *.
    assert (Hb2 : (oo + k <= length r)%nat) by lia.
    destruct (split3 r oo k Hb2 Hr) as (Hr3 & Hpre & Hmid & Hpost & Hokpre & Hokm & Hokp).
    set (pre := firstn oo r) in *. set (mid := slice r oo (oo + k)) in *. set (post := skipn (oo + k) r) in *.
    pose proof (width_fits m z Hz) as WF. fold k in WF.
    assert (Hw : mwidth m = N.size (N.shiftr m z)) by (unfold mwidth; now rewrite Hz).
    set (x := N.land (N.shiftr (ba_to_int mid) z) (N.shiftr m z)).
    assert (Hbits : forall i, N.testbit x i = (i <? mwidth m) && N.testbit (ba_to_int r) (8 * N.of_nat (n - oo - k) + z + i)).
    { intros i. unfold x. rewrite N.land_spec, N.shiftr_spec by lia. rewrite Hcont, <- Hw.
      rewrite Hr3, testbit_3 by assumption. rewrite Hmid, Hpost, Hlen.
      set (p := 8 * N.of_nat (n - oo - k)).
      destruct (N.ltb_spec i (mwidth m)) as [Hi|Hi].
      - rewrite N.ones_spec_low by assumption. rewrite andb_true_r. cbn [andb].
        destruct (N.ltb_spec (p + z + i) p); [lia|].
        destruct (N.ltb_spec (p + z + i - p) (8 * N.of_nat k)); [|lia].
        f_equal. lia.
      - rewrite N.ones_spec_high by assumption. now rewrite andb_false_r. }
    exists (VI x), x. split; [reflexivity|]. split; [reflexivity|]. split; [|exact Hbits].
    apply lt_pow2_bits. intros i Hi. rewrite Hbits.
    destruct (N.ltb_spec i (mwidth m)); [lia|reflexivity].
  - cbn [geom_of] in Hg. destruct (N.to_nat (o + len * u) <=? n)%nat eqn:Hb; [|discriminate].
    inversion Hg; subst g; clear Hg. cbn [g_lo g_w] in *. apply Nat.leb_le in Hb.
    cbn [decode1].
    set (oo := N.to_nat o) in *. set (l := N.to_nat (len * u)) in *.
    assert (Hol : N.to_nat (o + len * u) = (oo + l)%nat) by (unfold oo, l; lia).
    rewrite Hol in *.
    assert (Hb2 : (oo + l <= length r)%nat) by lia.
    destruct (split3 r oo l Hb2 Hr) as (Hr3 & Hpre & Hmid & Hpost & Hokpre & Hokm & Hokp).
    set (pre := firstn oo r) in *. set (mid := slice r oo (oo + l)) in *. set (post := skipn (oo + l) r) in *.
    exists (VB mid), (ba_to_int mid). split; [reflexivity|].
    split.
    { cbn [vint]. fold l. rewrite Hmid, Nat.eqb_refl. cbn [andb].
      apply bytes_okb_spec in Hokm. now rewrite Hokm. }
    pose proof (ba_to_int_bound mid Hokm) as Bm. rewrite pow256, Hmid in Bm.
    replace (8 * (len * u)) with (8 * N.of_nat l) by (unfold l; lia).
    split; [exact Bm|].
    intros i. rewrite Hr3 at 1. rewrite testbit_3 by assumption. rewrite Hmid, Hpost, Hlen.
    replace (n - (oo + l))%nat with (n - oo - l)%nat by lia.
    set (p := 8 * N.of_nat (n - oo - l)).
    destruct (N.ltb_spec (p + i) p); [lia|].
    replace (p + i - p) with i by lia.
    destruct (N.ltb_spec i (8 * N.of_nat l)) as [Hi|Hi]; cbn [andb]; [reflexivity|].
    now apply bits_above with (k := 8 * N.of_nat l).
Qed.

(* L3: the integer determines the value *)
Lemma vint_inj f v v' x : vint f v = Some x -> vint f v' = Some x -> v = v'.
Proof.
  destruct f as [m o|u o len]; destruct v as [a|a]; destruct v' as [b|b]; cbn [vint]; try discriminate.
  - intros H1 H2. congruence.
  - destruct ((length a =? N.to_nat (len * u))%nat && bytes_okb a) eqn:Ha; [|discriminate].
    destruct ((length b =? N.to_nat (len * u))%nat && bytes_okb b) eqn:Hb; [|discriminate].
    apply andb_prop in Ha as [La Oa]. apply andb_prop in Hb as [Lb Ob].
    apply Nat.eqb_eq in La, Lb. apply bytes_okb_spec in Oa, Ob.
    intros H1 H2. inversion H1; inversion H2; subst.
    f_equal. rewrite <- (int_to_ba_to_int a Oa), <- (int_to_ba_to_int b Ob). congruence.
Qed.

(* ------------------------------------------------------------------ *)
(* T10 "byte / bit" addressing:  bit j of the big-endian integer is bit (j mod 8) of
   byte number  n-1-j/8  of the buffer. *)
Theorem bit_view l j : bytes_ok l -> j < 8 * N.of_nat (length l) ->
  N.testbit (ba_to_int l) j = N.testbit (nth (length l - 1 - N.to_nat (j / 8)) l 0) (j mod 8).
Proof.
  intros Hl. revert j. induction Hl as [|b r Hb Hr IH]; intros j Hj; [cbn in Hj; lia|].
  cbn [ba_to_int length]. cbn [length] in Hj. rewrite Nat2N.inj_succ in Hj. rewrite pow256.
  pose proof (ba_to_int_bound r Hr) as Br. rewrite pow256 in Br.
  rewrite (testbit_concat _ _ _ j Br).
  pose proof (N.div_mod j 8 ltac:(lia)) as D. pose proof (N.mod_lt j 8 ltac:(lia)) as M.
  destruct (N.ltb_spec j (8 * N.of_nat (length r))) as [Hlt|Hge].
  - rewrite IH by assumption.
    assert (Hq0 : j / 8 < N.of_nat (length r)) by (apply N.div_lt_upper_bound; lia).
    assert (Hq : (N.to_nat (j / 8) < length r)%nat) by lia.
    replace (S (length r) - 1 - N.to_nat (j / 8))%nat with (S (length r - 1 - N.to_nat (j / 8)))%nat by lia.
    reflexivity.
  - assert (Hq1 : j / 8 < N.of_nat (length r) + 1) by (apply N.div_lt_upper_bound; lia).
    assert (Hq2 : N.of_nat (length r) <= j / 8) by (apply N.div_le_lower_bound; lia).
    assert (Hq : j / 8 = N.of_nat (length r)) by lia.
    rewrite Hq, Nat2N.id. replace (S (length r) - 1 - length r)%nat with 0%nat by lia.
    cbn [nth]. f_equal. lia.
Qed.

(* the decoded integer of a field, arithmetically *)
Lemma bits_divmod x X lo w :
  (forall i, N.testbit x i = (i <? w) && N.testbit X (lo + i)) -> x = (X / 2 ^ lo) mod 2 ^ w.
Proof.
  intros H. apply N.bits_inj. intros i. rewrite H.
  destruct (N.ltb_spec i w) as [Hi|Hi]; cbn [andb].
  - rewrite N.mod_pow2_bits_low by assumption. rewrite N.div_pow2_bits. f_equal. lia.
  - now rewrite N.mod_pow2_bits_high.
Qed.

(* behaviour outside the hypotheses of the laws (so the totalised model cannot make a law true
   for the wrong reason) *)
Lemma encode_mask_zero r o v : encode1 r (Mask 0 o) (VI v) = Raise Diverges.
Proof. reflexivity. Qed.
Lemma decode_mask_zero r o : decode1 r (Mask 0 o) = Raise Diverges.
Proof. reflexivity. Qed.
Lemma encode_out_of_bounds r m o v z : ctz m = Some z ->
  (length r < N.to_nat o + nbytes m)%nat -> encode1 r (Mask m o) (VI v) = Raise IndexError.
Proof.
  intros Hz Hlt. cbn [encode1]. rewrite Hz.
  destruct (Nat.leb_spec (N.to_nat o + nbytes m) (length r)); [lia|reflexivity].
Qed.
