(* Proofs/Layout.v — dictionary-level laws of encode_dict / decode_bits for every
   well-formed layout: decode∘encode, encode∘decode, frame, order independence,
   field independence.  All sizes, all masks, all values. *)
From Coq Require Import String Permutation.
From PS Require Import Base.Bytes Base.Result Model.Converter Proofs.Codec.
Set Default Timeout 60.

(* ---------- decidable well-formedness of a layout for an n-byte buffer ---------- *)

Definition disjointb (g1 g2 : geom) : bool :=
  (g_lo g1 + g_w g1 <=? g_lo g2) || (g_lo g2 + g_w g2 <=? g_lo g1).

Fixpoint pairwise {A} (p : A -> A -> bool) (l : list A) : bool :=
  match l with [] => true | x :: l' => forallb (p x) l' && pairwise p l' end.

Fixpoint memb (k : string) (l : list string) : bool :=
  match l with [] => false | k' :: l' => String.eqb k k' || memb k l' end.

Fixpoint nodupb (l : list string) : bool :=
  match l with [] => true | k :: l' => negb (memb k l') && nodupb l' end.

Definition geoms (n : nat) (L : layout) : list (option geom) := map (fun kf => geom_of n (snd kf)) L.

Definition odisjointb (a b : option geom) : bool :=
  match a, b with Some g1, Some g2 => disjointb g1 g2 | _, _ => false end.

Definition wf_layout (n : nat) (L : layout) : bool :=
  nodupb (map fst L) && pairwise odisjointb (geoms n L)
  && forallb (fun og => match og with Some _ => true | None => false end) (geoms n L).

(* a data dictionary that is valid for layout L: distinct keys, right kind of value, in range *)
Definition val_okb (n : nat) (L : layout) (kv : string * value) : bool :=
  match lookup (fst kv) L with
  | None => true
  | Some f => match geom_of n f, vint f (snd kv) with
              | Some g, Some x => x <? 2 ^ g_w g
              | _, _ => false
              end
  end.

Definition valid_dict (n : nat) (L : layout) (d : list (string * value)) : bool :=
  nodupb (map fst d) && forallb (val_okb n L) d.

(* ---------- the effect of a whole dictionary on one bit ---------- *)

Definition write1 (n : nat) (L : layout) (kv : string * value) (old : bool) (j : N) : bool :=
  match lookup (fst kv) L with
  | Some f => match geom_of n f, vint f (snd kv) with
              | Some g, Some x => if in_field g j then write_bit f g x old j else old
              | _, _ => old
              end
  | None => old
  end.

Fixpoint apply_writes (n : nat) (L : layout) (d : list (string * value)) (old : bool) (j : N) : bool :=
  match d with
  | [] => old
  | kv :: d' => apply_writes n L d' (write1 n L kv old j) j
  end.

Theorem encode_dict_bits n L d : forall r,
  length r = n -> bytes_ok r -> forallb (val_okb n L) d = true ->
  exists r', encode_dict d L r = Ok r' /\ length r' = n /\ bytes_ok r' /\
    forall j, N.testbit (ba_to_int r') j = apply_writes n L d (N.testbit (ba_to_int r) j) j.
Proof.
  induction d as [|[k v] d IH]; intros r Hlen Hr Hv.
  - exists r. cbn [encode_dict apply_writes]. auto.
  - cbn [forallb] in Hv. apply andb_prop in Hv as [Hkv Hv].
    cbn [encode_dict apply_writes]. unfold val_okb in Hkv. unfold write1. cbn [fst snd] in *.
    destruct (lookup k L) as [f|] eqn:Hl.
    + destruct (geom_of n f) as [g|] eqn:Hg; [|discriminate].
      destruct (vint f v) as [x|] eqn:Hx; [|discriminate].
      apply N.ltb_lt in Hkv.
      destruct (encode1_bits n r f g v x Hg Hlen Hr Hx Hkv) as (r1 & E1 & L1 & O1 & B1).
      rewrite E1. destruct (IH r1 L1 O1 Hv) as (r' & E & L' & O' & B').
      exists r'. repeat split; try assumption.
      intros j. rewrite B', B1. reflexivity.
    + destruct (IH r Hlen Hr Hv) as (r' & E & L' & O' & B'). exists r'. auto.
Qed.

(* ---------- consequences of well-formedness ---------- *)

Lemma memb_In k l : memb k l = true <-> In k l.
Proof.
  induction l as [|k' l IH]; cbn [memb In]; [split; [discriminate|tauto]|].
  rewrite orb_true_iff, IH, String.eqb_eq. split; intros [H|H]; auto.
Qed.

Lemma nodupb_NoDup l : nodupb l = true -> NoDup l.
Proof.
  induction l as [|k l IH]; cbn [nodupb]; intros H; [constructor|].
  apply andb_prop in H as [H1 H2]. constructor; [|auto].
  intros Hin. apply memb_In in Hin. rewrite Hin in H1. discriminate.
Qed.

Lemma lookup_In {A} k (l : list (string * A)) v : lookup k l = Some v -> In (k, v) l.
Proof.
  induction l as [|[k' v'] l IH]; cbn [lookup]; [discriminate|].
  destruct (String.eqb_spec k k') as [->|Hne]; intros H.
  - inversion H; subst. now left.
  - right. auto.
Qed.

Lemma In_lookup {A} k (l : list (string * A)) v :
  NoDup (map fst l) -> In (k, v) l -> lookup k l = Some v.
Proof.
  induction l as [|[k' v'] l IH]; cbn [lookup map fst]; intros Hnd Hin; [contradiction|].
  inversion Hnd as [|? ? Hni Hnd']; subst.
  destruct Hin as [E|Hin].
  - inversion E; subst. now rewrite String.eqb_refl.
  - destruct (String.eqb_spec k k') as [->|Hne]; [|auto].
    exfalso. apply Hni. change k' with (fst (k', v)). now apply in_map.
Qed.

Lemma disjointb_spec g1 g2 j : disjointb g1 g2 = true -> in_field g1 j = true -> in_field g2 j = false.
Proof.
  unfold disjointb, in_field. intros H H1.
  apply andb_prop in H1 as [A B]. apply N.leb_le in A. apply N.ltb_lt in B.
  apply orb_prop in H as [H|H]; apply N.leb_le in H.
  - destruct (N.leb_spec (g_lo g2) j); [lia|reflexivity].
  - destruct (N.ltb_spec j (g_lo g2 + g_w g2)); [lia|]. now rewrite andb_false_r.
Qed.

Lemma disjointb_sym g1 g2 : disjointb g1 g2 = disjointb g2 g1.
Proof. unfold disjointb. apply orb_comm. Qed.

Definition fields_disjoint (n : nat) (L : layout) : Prop :=
  forall k k' f f' g g', k <> k' -> In (k, f) L -> In (k', f') L ->
    geom_of n f = Some g -> geom_of n f' = Some g' ->
    forall j, in_field g j = true -> in_field g' j = false.

Lemma pairwise_disjoint n L : pairwise odisjointb (geoms n L) = true -> NoDup (map fst L) ->
  fields_disjoint n L.
Proof.
  unfold geoms. induction L as [|[k0 f0] L IH]; cbn [map pairwise fst snd]; intros Hp Hnd.
  - intros ? ? ? ? ? ? _ [].
  - apply andb_prop in Hp as [Hall Hp]. inversion Hnd as [|? ? Hni Hnd']; subst.
    specialize (IH Hp Hnd'). rewrite forallb_forall in Hall.
    intros k k' f f' g g' Hne [E1|I1] [E2|I2] Hg Hg' j Hj.
    + inversion E1; inversion E2; subst. congruence.
    + inversion E1; subst. specialize (Hall (geom_of n f')).
      rewrite Hg in Hall. rewrite Hg' in Hall.
      assert (Hin : In (Some g') (map (fun kf => geom_of n (snd kf)) L)).
      { rewrite <- Hg'. change (geom_of n f') with ((fun kf => geom_of n (snd kf)) (k', f')). now apply in_map. }
      specialize (Hall Hin). cbn [odisjointb] in Hall. eapply disjointb_spec; eassumption.
    + inversion E2; subst. specialize (Hall (geom_of n f)).
      rewrite Hg in Hall. rewrite Hg' in Hall.
      assert (Hin : In (Some g) (map (fun kf => geom_of n (snd kf)) L)).
      { rewrite <- Hg. change (geom_of n f) with ((fun kf => geom_of n (snd kf)) (k, f)). now apply in_map. }
      specialize (Hall Hin). cbn [odisjointb] in Hall. rewrite disjointb_sym in Hall.
      eapply disjointb_spec; eassumption.
    + eapply IH; eassumption.
Qed.

Lemma wf_layout_parts n L : wf_layout n L = true ->
  NoDup (map fst L) /\ fields_disjoint n L /\
  (forall k f, In (k, f) L -> exists g, geom_of n f = Some g).
Proof.
  unfold wf_layout. intros H. apply andb_prop in H as [H H3]. apply andb_prop in H as [H1 H2].
  apply nodupb_NoDup in H1. split; [assumption|]. split; [now apply pairwise_disjoint|].
  intros k f Hin. rewrite forallb_forall in H3.
  specialize (H3 (geom_of n f)).
  assert (Hi : In (geom_of n f) (geoms n L)).
  { unfold geoms. change (geom_of n f) with ((fun kf => geom_of n (snd kf)) (k, f)). now apply in_map. }
  specialize (H3 Hi). destruct (geom_of n f) as [g|]; [now exists g|discriminate].
Qed.

(* writes of other keys do not touch a bit of field k *)
Lemma apply_writes_untouched n L d old j :
  (forall kv f g, In kv d -> lookup (fst kv) L = Some f -> geom_of n f = Some g -> in_field g j = false) ->
  apply_writes n L d old j = old.
Proof.
  revert old; induction d as [|kv d IH]; intros old H; cbn [apply_writes]; [reflexivity|].
  rewrite IH by (intros; eapply H; [right|..]; eassumption).
  unfold write1. destruct (lookup (fst kv) L) as [f|] eqn:Hl; [|reflexivity].
  destruct (geom_of n f) as [g|] eqn:Hg; [|reflexivity].
  destruct (vint f (snd kv)); [|reflexivity].
  now rewrite (H kv f g (or_introl eq_refl) Hl Hg).
Qed.

Lemma apply_writes_in n L d : wf_layout n L = true -> NoDup (map fst d) ->
  forall k v f g x old j, In (k, v) d -> lookup k L = Some f -> geom_of n f = Some g -> vint f v = Some x ->
  in_field g j = true ->
  apply_writes n L d old j = write_bit f g x old j.
Proof.
  intros Hwf. destruct (wf_layout_parts n L Hwf) as (HndL & Hdis & _).
  induction d as [|[k1 v1] d IH]; intros Hnd k v f g x old j Hin Hl Hg Hx Hj; [contradiction|].
  cbn [map fst] in Hnd. inversion Hnd as [|? ? Hni Hnd']; subst.
  cbn [apply_writes]. destruct Hin as [E|Hin].
  - inversion E; subst k1 v1. unfold write1. cbn [fst snd]. rewrite Hl, Hg, Hx, Hj.
    apply apply_writes_untouched. intros [k2 v2] f2 g2 Hin2 Hl2 Hg2. cbn [fst] in Hl2.
    assert (Hne : k <> k2).
    { intros ->. apply Hni. change k2 with (fst (k2, v2)). now apply in_map. }
    eapply (Hdis k k2 f f2 g g2 Hne); eauto using lookup_In.
  - assert (Hne : k <> k1).
    { intros ->. apply Hni. change k1 with (fst (k1, v)). now apply in_map. }
    assert (W : write1 n L (k1, v1) old j = old).
    { unfold write1. cbn [fst snd]. destruct (lookup k1 L) as [f1|] eqn:Hl1; [|reflexivity].
      destruct (geom_of n f1) as [g1|] eqn:Hg1; [|reflexivity].
      destruct (vint f1 v1); [|reflexivity].
      rewrite (Hdis k k1 f f1 g g1 Hne (lookup_In _ _ _ Hl) (lookup_In _ _ _ Hl1) Hg Hg1 j Hj). reflexivity. }
    rewrite W. eapply IH; eassumption.
Qed.

(* ---------- the laws ---------- *)

Definition zero_value (f : fdesc) : value :=
  match f with Mask _ _ => VI 0 | Blob u _ len => VB (zeros (N.to_nat (len * u))) end.

Lemma vint_zero f : vint f (zero_value f) = Some 0.
Proof.
  destruct f as [m o|u o len]; cbn [vint zero_value]; [reflexivity|].
  rewrite zeros_length, Nat.eqb_refl. cbn [andb].
  assert (H : bytes_okb (zeros (N.to_nat (len * u))) = true) by (apply bytes_okb_spec, bytes_ok_zeros).
  rewrite H. now rewrite ba_to_int_zeros.
Qed.

Lemma valid_dict_parts n L d : valid_dict n L d = true ->
  NoDup (map fst d) /\ forallb (val_okb n L) d = true.
Proof. unfold valid_dict. intros H. apply andb_prop in H as [A B]. split; [now apply nodupb_NoDup|assumption]. Qed.

Lemma val_ok_in n L d k v f g : forallb (val_okb n L) d = true -> In (k, v) d ->
  lookup k L = Some f -> geom_of n f = Some g -> exists x, vint f v = Some x /\ x < 2 ^ g_w g.
Proof.
  intros H Hin Hl Hg. rewrite forallb_forall in H. specialize (H _ Hin).
  unfold val_okb in H. cbn [fst snd] in H. rewrite Hl, Hg in H.
  destruct (vint f v) as [x|]; [|discriminate]. exists x. split; [reflexivity|now apply N.ltb_lt].
Qed.

(* decode after encode returns the value — for every field of the layout:
   the supplied value for supplied keys, the prior content of the buffer's bits otherwise. *)
Theorem decode_encode_field n L d r k f :
  wf_layout n L = true -> valid_dict n L d = true ->
  length r = n -> bytes_ok r -> In (k, f) L ->
  exists r', encode_dict d L r = Ok r' /\ length r' = n /\ bytes_ok r' /\
    (forall v, In (k, v) d -> ba_to_int r = 0 -> decode1 r' f = Ok v) /\
    (~ In k (map fst d) -> decode1 r' f = decode1 r f).
Proof.
  intros Hwf Hvd Hlen Hr Hin.
  destruct (wf_layout_parts n L Hwf) as (HndL & Hdis & Hgeo).
  destruct (valid_dict_parts n L d Hvd) as (Hnd & Hvals).
  destruct (encode_dict_bits n L d r Hlen Hr Hvals) as (r' & E & L' & O' & B).
  exists r'. repeat split; try assumption.
  - intros v Hv Hz.
    destruct (Hgeo k f Hin) as [g Hg].
    pose proof (In_lookup k L f HndL Hin) as Hl.
    destruct (val_ok_in n L d k v f g Hvals Hv Hl Hg) as (x & Hx & Hxr).
    destruct (decode1_bits n r' f g Hg L' O') as (v' & x' & D & Vx' & Bx' & Bits).
    rewrite D. f_equal. apply (vint_inj f v' v x); [|assumption].
    rewrite Vx'. f_equal. apply N.bits_inj. intros i. rewrite Bits, B.
    destruct (N.ltb_spec i (g_w g)) as [Hi|Hi]; cbn [andb].
    + assert (Hj : in_field g (g_lo g + i) = true).
      { unfold in_field. apply andb_true_intro. split; [apply N.leb_le; lia|apply N.ltb_lt; lia]. }
      rewrite (apply_writes_in n L d Hwf Hnd k v f g x _ _ Hv Hl Hg Hx Hj).
      rewrite Hz, N.bits_0. unfold write_bit. replace (g_lo g + i - g_lo g) with i by lia.
      destruct f; [now rewrite xorb_false_l|reflexivity].
    + symmetry. now apply bits_above with (k := g_w g).
  - intros Hnk.
    destruct (Hgeo k f Hin) as [g Hg].
    destruct (decode1_bits n r' f g Hg L' O') as (v' & x' & D' & Vx' & Bx' & Bits').
    destruct (decode1_bits n r f g Hg Hlen Hr) as (v0 & x0 & D0 & Vx0 & Bx0 & Bits0).
    rewrite D', D0. f_equal. apply (vint_inj f v' v0 x'); [assumption|].
    rewrite Vx0. f_equal. apply N.bits_inj. intros i. rewrite Bits', Bits0, B.
    destruct (N.ltb_spec i (g_w g)) as [Hi|Hi]; cbn [andb]; [|reflexivity].
    assert (Hj : in_field g (g_lo g + i) = true).
    { unfold in_field. apply andb_true_intro. split; [apply N.leb_le; lia|apply N.ltb_lt; lia]. }
    symmetry. apply apply_writes_untouched. intros [k2 v2] f2 g2 Hin2 Hl2 Hg2. cbn [fst] in Hl2.
    assert (Hne : k <> k2).
    { intros ->. apply Hnk. change k2 with (fst (k2, v2)). now apply in_map. }
    eapply (Hdis k k2 f f2 g g2 Hne); eauto using lookup_In.
Qed.

(* frame: bits outside every supplied field are unchanged *)
Theorem encode_frame n L d r :
  valid_dict n L d = true -> length r = n -> bytes_ok r ->
  exists r', encode_dict d L r = Ok r' /\ length r' = n /\
    forall j, (forall k v f g, In (k, v) d -> lookup k L = Some f -> geom_of n f = Some g -> in_field g j = false) ->
      N.testbit (ba_to_int r') j = N.testbit (ba_to_int r) j.
Proof.
  intros Hvd Hlen Hr. destruct (valid_dict_parts n L d Hvd) as (Hnd & Hvals).
  destruct (encode_dict_bits n L d r Hlen Hr Hvals) as (r' & E & L' & O' & B).
  exists r'. repeat split; try assumption.
  intros j H. rewrite B. apply apply_writes_untouched.
  intros [k v] f g Hin Hl Hg. eapply H; eassumption.
Qed.

Lemma bytes_eq_of_int a b : length a = length b -> bytes_ok a -> bytes_ok b ->
  ba_to_int a = ba_to_int b -> a = b.
Proof.
  intros Hl Ha Hb E. rewrite <- (int_to_ba_to_int a Ha), <- (int_to_ba_to_int b Hb). congruence.
Qed.

(* the value written by d into bit j when d is valid: independent of the order of d *)
Lemma apply_writes_perm n L d d' : wf_layout n L = true ->
  valid_dict n L d = true -> Permutation d d' ->
  forall old j, apply_writes n L d old j = apply_writes n L d' old j.
Proof.
  intros Hwf Hvd Hp old j.
  destruct (valid_dict_parts n L d Hvd) as (Hnd & Hvals).
  assert (Hnd' : NoDup (map fst d')) by (eapply Permutation_NoDup; [apply Permutation_map; eassumption|assumption]).
  (* either some entry of d owns bit j, or none does *)
  destruct (existsb (fun kv => match lookup (fst kv) L with
                               | Some f => match geom_of n f with Some g => in_field g j | None => false end
                               | None => false end) d) eqn:Hex.
  - apply existsb_exists in Hex as ([k v] & Hin & Hown). cbn [fst] in Hown.
    destruct (lookup k L) as [f|] eqn:Hl; [|discriminate].
    destruct (geom_of n f) as [g|] eqn:Hg; [|discriminate].
    destruct (val_ok_in n L d k v f g Hvals Hin Hl Hg) as (x & Hx & _).
    rewrite (apply_writes_in n L d Hwf Hnd k v f g x old j Hin Hl Hg Hx Hown).
    rewrite (apply_writes_in n L d' Hwf Hnd' k v f g x old j (Permutation_in _ Hp Hin) Hl Hg Hx Hown).
    reflexivity.
  - assert (Hnone : forall kv f g, In kv d -> lookup (fst kv) L = Some f -> geom_of n f = Some g -> in_field g j = false).
    { intros kv f g Hin Hl Hg.
      destruct (in_field g j) eqn:Hj; [|reflexivity].
      assert (Hc : existsb (fun kv => match lookup (fst kv) L with
                               | Some f => match geom_of n f with Some g => in_field g j | None => false end
                               | None => false end) d = true).
      { apply existsb_exists. exists kv. split; [assumption|]. now rewrite Hl, Hg. }
      congruence. }
    rewrite (apply_writes_untouched n L d old j Hnone).
    rewrite (apply_writes_untouched n L d' old j); [reflexivity|].
    intros kv f g Hin. apply Hnone. eapply Permutation_in; [apply Permutation_sym; eassumption|assumption].
Qed.

Lemma forallb_perm {A} (p : A -> bool) l l' : Permutation l l' -> forallb p l = true -> forallb p l' = true.
Proof.
  intros Hp H. rewrite forallb_forall in *. intros x Hx. apply H.
  eapply Permutation_in; [apply Permutation_sym; eassumption|assumption].
Qed.

(* order independence *)
Theorem encode_perm n L d d' r :
  wf_layout n L = true -> valid_dict n L d = true -> Permutation d d' ->
  length r = n -> bytes_ok r ->
  exists r', encode_dict d L r = Ok r' /\ encode_dict d' L r = Ok r'.
Proof.
  intros Hwf Hvd Hp Hlen Hr.
  destruct (valid_dict_parts n L d Hvd) as (Hnd & Hvals).
  pose proof (forallb_perm _ _ _ Hp Hvals) as Hvals'.
  destruct (encode_dict_bits n L d r Hlen Hr Hvals) as (r1 & E1 & L1 & O1 & B1).
  destruct (encode_dict_bits n L d' r Hlen Hr Hvals') as (r2 & E2 & L2 & O2 & B2).
  exists r1. split; [assumption|]. rewrite E2. f_equal.
  apply bytes_eq_of_int; try assumption; [congruence|].
  apply N.bits_inj. intros j. rewrite B1, B2. symmetry. now apply apply_writes_perm.
Qed.

(* encode after decode reproduces a buffer whose bits outside the fields are zero *)

Theorem encode_decode n L b :
  wf_layout n L = true -> length b = n -> bytes_ok b ->
  (forall j, (forall k f g, In (k, f) L -> geom_of n f = Some g -> in_field g j = false) ->
             N.testbit (ba_to_int b) j = false) ->
  exists d, decode_bits b L = Ok d /\ encode_dict d L (zeros n) = Ok b.
Proof.
  intros Hwf Hlen Hb Hout.
  destruct (wf_layout_parts n L Hwf) as (HndL & Hdis & Hgeo).
  (* decode_bits succeeds, yielding for each field the in-range integer of its bits *)
  assert (Hdec : forall L0, (forall k f, In (k, f) L0 -> In (k, f) L) ->
            exists d, decode_bits b L0 = Ok d /\ map fst d = map fst L0 /\
              forall k v, In (k, v) d -> exists f g x, In (k, f) L0 /\ geom_of n f = Some g /\
                 vint f v = Some x /\ x < 2 ^ g_w g /\
                 forall i, N.testbit x i = (i <? g_w g) && N.testbit (ba_to_int b) (g_lo g + i)).
  { induction L0 as [|[k f] L0 IH]; intros Hsub.
    - exists []. cbn [decode_bits]. repeat split. intros ? ? [].
    - destruct (Hgeo k f (Hsub k f (or_introl eq_refl))) as [g Hg].
      destruct (decode1_bits n b f g Hg Hlen Hb) as (v & x & D & Vx & Bx & Bits).
      destruct IH as (d0 & D0 & K0 & P0); [intros; apply Hsub; now right|].
      exists ((k, v) :: d0). cbn [decode_bits]. rewrite D, D0. split; [reflexivity|].
      split; [cbn [map fst]; now f_equal|].
      intros k1 v1 [E|Hin].
      + inversion E; subst. exists f, g, x. repeat split; try assumption. now left.
      + destruct (P0 k1 v1 Hin) as (f1 & g1 & x1 & I1 & R). exists f1, g1, x1. split; [now right|assumption]. }
  destruct (Hdec L (fun k f H => H)) as (d & D & K & P).
  exists d. split; [assumption|].
  assert (Hndd : NoDup (map fst d)) by (now rewrite K).
  assert (Hvals : forallb (val_okb n L) d = true).
  { apply forallb_forall. intros [k v] Hin. destruct (P k v Hin) as (f & g & x & I & Hg & Vx & Bx & _).
    unfold val_okb. cbn [fst snd]. rewrite (In_lookup k L f HndL I), Hg, Vx. now apply N.ltb_lt. }
  destruct (encode_dict_bits n L d (zeros n) (zeros_length n) (bytes_ok_zeros n) Hvals) as (r' & E & L' & O' & B).
  rewrite E. f_equal. apply bytes_eq_of_int; try assumption; [congruence|].
  apply N.bits_inj. intros j. rewrite B, ba_to_int_zeros, N.bits_0.
  (* is j inside some field of L ? *)
  destruct (existsb (fun kf => match geom_of n (snd kf) with Some g => in_field g j | None => false end) L) eqn:Hex.
  - apply existsb_exists in Hex as ([k f] & Hin & Hown). cbn [snd] in Hown.
    destruct (geom_of n f) as [g|] eqn:Hg; [|discriminate].
    (* the decoded dict has an entry for k *)
    assert (Hk : In k (map fst d)) by (rewrite K; change k with (fst (k, f)); now apply in_map).
    apply in_map_iff in Hk as ([k' v] & Ek & Hv). cbn [fst] in Ek. subst k'.
    destruct (P k v Hv) as (f1 & g1 & x & I1 & Hg1 & Vx & Bx & Bits).
    assert (f1 = f).
    { pose proof (In_lookup k L f1 HndL I1) as A1. pose proof (In_lookup k L f HndL Hin) as A2. congruence. }
    subst f1. assert (g1 = g) by congruence. subst g1.
    rewrite (apply_writes_in n L d Hwf Hndd k v f g x false j Hv (In_lookup k L f HndL Hin) Hg Vx Hown).
    unfold write_bit. unfold in_field in Hown. apply andb_prop in Hown as [A1 A2].
    apply N.leb_le in A1. apply N.ltb_lt in A2.
    assert (Bj : N.testbit x (j - g_lo g) = N.testbit (ba_to_int b) j).
    { rewrite Bits. destruct (N.ltb_spec (j - g_lo g) (g_w g)); [|lia]. cbn [andb]. f_equal. lia. }
    destruct f; [now rewrite xorb_false_l|assumption].
  - rewrite apply_writes_untouched.
    + symmetry. apply Hout. intros k f g Hin Hg.
      destruct (in_field g j) eqn:Hj; [|reflexivity].
      assert (Hc : existsb (fun kf => match geom_of n (snd kf) with Some g => in_field g j | None => false end) L = true).
      { apply existsb_exists. exists (k, f). split; [assumption|]. cbn [snd]. now rewrite Hg. }
      congruence.
    + intros [k v] f g Hin Hl Hg. cbn [fst] in Hl.
      destruct (in_field g j) eqn:Hj; [|reflexivity].
      assert (Hc : existsb (fun kf => match geom_of n (snd kf) with Some g => in_field g j | None => false end) L = true).
      { apply existsb_exists. exists (k, f). split; [now apply lookup_In|]. cbn [snd]. now rewrite Hg. }
      congruence.
Qed.

(* field independence: two valid dictionaries that agree except at key k produce buffers whose
   other fields decode identically *)
Theorem field_independence n L d d' r k k2 f2 :
  wf_layout n L = true -> valid_dict n L d = true -> valid_dict n L d' = true ->
  length r = n -> bytes_ok r ->
  map fst d = map fst d' ->
  (forall k1 v, k1 <> k -> (In (k1, v) d <-> In (k1, v) d')) ->
  In (k2, f2) L -> k2 <> k ->
  exists r1 r2, encode_dict d L r = Ok r1 /\ encode_dict d' L r = Ok r2 /\
                decode1 r1 f2 = decode1 r2 f2.
Proof.
  intros Hwf Hvd Hvd' Hlen Hr Hkeys Hagree Hin2 Hne.
  destruct (wf_layout_parts n L Hwf) as (HndL & Hdis & Hgeo).
  destruct (valid_dict_parts n L d Hvd) as (Hnd & Hvals).
  destruct (valid_dict_parts n L d' Hvd') as (Hnd' & Hvals').
  destruct (encode_dict_bits n L d r Hlen Hr Hvals) as (r1 & E1 & L1 & O1 & B1).
  destruct (encode_dict_bits n L d' r Hlen Hr Hvals') as (r2 & E2 & L2 & O2 & B2).
  exists r1, r2. repeat split; try assumption.
  destruct (Hgeo k2 f2 Hin2) as [g2 Hg2].
  destruct (decode1_bits n r1 f2 g2 Hg2 L1 O1) as (v1 & x1 & D1 & V1 & _ & Bits1).
  destruct (decode1_bits n r2 f2 g2 Hg2 L2 O2) as (v2 & x2 & D2 & V2 & _ & Bits2).
  rewrite D1, D2. f_equal. apply (vint_inj f2 v1 v2 x1); [assumption|].
  rewrite V2. f_equal. apply N.bits_inj. intros i. rewrite Bits1, Bits2, B1, B2.
  destruct (N.ltb_spec i (g_w g2)) as [Hi|Hi]; cbn [andb]; [|reflexivity].
  assert (Hj : in_field g2 (g_lo g2 + i) = true).
  { unfold in_field. apply andb_true_intro. split; [apply N.leb_le; lia|apply N.ltb_lt; lia]. }
  pose proof (In_lookup k2 L f2 HndL Hin2) as Hl2.
  destruct (in_dec string_dec k2 (map fst d)) as [Hk|Hk].
  - apply in_map_iff in Hk as ([k' v] & Ek & Hv). cbn [fst] in Ek. subst k'.
    destruct (val_ok_in n L d k2 v f2 g2 Hvals Hv Hl2 Hg2) as (x & Hx & _).
    rewrite (apply_writes_in n L d Hwf Hnd k2 v f2 g2 x _ _ Hv Hl2 Hg2 Hx Hj).
    apply (Hagree k2 v Hne) in Hv.
    rewrite (apply_writes_in n L d' Hwf Hnd' k2 v f2 g2 x _ _ Hv Hl2 Hg2 Hx Hj). reflexivity.
  - rewrite (apply_writes_untouched n L d).
    + rewrite (apply_writes_untouched n L d'); [reflexivity|].
      intros [k3 v3] f3 g3 Hin3 Hl3 Hg3. cbn [fst] in Hl3.
      assert (Hne3 : k2 <> k3).
      { intros ->. apply Hk. rewrite Hkeys. change k3 with (fst (k3, v3)). now apply in_map. }
      eapply (Hdis k2 k3 f2 f3 g2 g3 Hne3); eauto using lookup_In.
    + intros [k3 v3] f3 g3 Hin3 Hl3 Hg3. cbn [fst] in Hl3.
      assert (Hne3 : k2 <> k3).
      { intros ->. apply Hk. change k3 with (fst (k3, v3)). now apply in_map. }
      eapply (Hdis k2 k3 f2 f3 g2 g3 Hne3); eauto using lookup_In.
Qed.
