(* Proofs/SenseProps.v — totality and positions of sense decoding, for EVERY byte string. *)
From Coq Require Import String.
From PS Require Import Model.SenseStep.
From PS Require Import Base.Bytes Base.Result Model.Converter Model.Command Model.Enum Model.Exec Model.Sense.
From PS Require Import Proofs.Codec Proofs.Layout Gen.Tables Gen.SenseTables Gen.Misc Spec.SenseFmt.
Set Default Timeout 60.
Open Scope string_scope.
Open Scope N_scope.

(* ---------- decode_bits never raises on a table whose masks are non-zero, whatever the buffer ---------- *)

Definition field_total (f : fdesc) : bool := match f with Mask m _ => negb (m =? 0) | Blob _ _ _ => true end.

Lemma decode1_total s f : field_total f = true -> exists v, decode1 s f = Ok v.
Proof.
  destruct f as [m o|u o len]; cbn [field_total decode1]; intros H; [|eauto].
  destruct m as [|p]; [discriminate|]. cbn [ctz]. eauto.
Qed.

Lemma decode_bits_total s L : forallb (fun kf => field_total (snd kf)) L = true ->
  exists d, decode_bits s L = Ok d.
Proof.
  induction L as [|[k f] L IH]; cbn [forallb decode_bits snd]; intros H; [eauto|].
  apply andb_prop in H as [Hf HL]. destruct (decode1_total s f Hf) as [v ->].
  destruct (IH HL) as [d ->]. eauto.
Qed.

Lemma decode_bits_lookup s L : forall d k f, decode_bits s L = Ok d -> NoDup (map fst L) ->
  lookup k L = Some f -> exists v, lookup k d = Some v /\ decode1 s f = Ok v.
Proof.
  induction L as [|[k1 f1] L IH]; intros d k f Hd Hnd Hl; [discriminate|].
  cbn [decode_bits] in Hd. destruct (decode1 s f1) as [v1|] eqn:E1; [|discriminate].
  destruct (decode_bits s L) as [d1|] eqn:E2; [|discriminate]. inversion Hd; subst d.
  cbn [lookup map fst] in *. inversion Hnd; subst.
  destruct (String.eqb_spec k k1) as [->|Hne].
  - inversion Hl; subst. eauto.
  - eapply IH; eauto.
Qed.

(* a single-byte mask field is read from one byte of the buffer; an absent byte reads as 0 *)
Lemma slice_one s o : slice s o (o + 1) = match nth_error s o with Some x => [x] | None => [] end.
Proof.
  unfold slice. replace (o + 1 - o)%nat with 1%nat by lia.
  revert s; induction o as [|o IH]; intros [|x s]; cbn [skipn firstn nth_error]; try reflexivity. apply IH.
Qed.

Lemma decode1_byte s m o z : m < 256 -> ctz m = Some z ->
  decode1 s (Mask m o) = Ok (VI (N.land (N.shiftr (nth (N.to_nat o) s 0) z) (N.shiftr m z))).
Proof.
  intros Hm Hz. cbn [decode1]. rewrite Hz.
  assert (Hn : nbytes m = 1%nat).
  { unfold nbytes. destruct (N.eq_dec m 0) as [->|Hne]; [reflexivity|].
    assert (Hlog : N.log2 m < 8).
    { apply N.log2_lt_pow2; [lia|]. change (2 ^ 8) with 256. lia. }
    assert (N.size m <= 8) by (rewrite size_eq by assumption; lia).
    assert (1 <= N.size m) by (rewrite size_eq by assumption; lia).
    assert (E : (N.size m + 7) / 8 = 1).
    { symmetry. apply N.div_unique with (r := N.size m + 7 - 8); lia. }
    rewrite E. reflexivity. }
  rewrite Hn, slice_one. do 3 f_equal.
  destruct (nth_error s (N.to_nat o)) as [x|] eqn:E.
  - rewrite (nth_error_nth s (N.to_nat o) 0 E). cbn [ba_to_int length]. change (N.of_nat 0) with 0. rewrite N.pow_0_r. f_equal. lia.
  - rewrite nth_overflow by (now apply nth_error_None). reflexivity.
Qed.

(* ---------- the decidable side conditions on the regenerated sense code ---------- *)

Definition dispatch_entry_ok (d : list N * layout * string * string) : bool :=
  let '(codes, L, ak, qk) := d in
  forallb (fun kf => field_total (snd kf)) L && nodupb (map fst L)
  && match lookup ak L, lookup qk L, lookup "sense_key" L with
     | Some (Mask _ _), Some (Mask _ _), Some (Mask _ _) => true | _, _, _ => false end.

(* the regenerated steps of _describe_ascq end in a text for every code: a step that always answers (a default, a plain text) is
   reached before any strict lookup and before the end of the function *)
Fixpoint steps_total (steps : list ascq_step) : bool :=
  match steps with
  | [] => false
  | AGetDefault _ :: _ | AText _ :: _ => true
  | AStrict :: _ | AUnknownStep :: _ => false
  | _ :: r => steps_total r
  end.

Lemma steps_total_ok steps a q : steps_total steps = true -> exists t, describe_steps steps a q = Ok t.
Proof.
  induction steps as [|s r IH]; [discriminate|]. destruct s; cbn [steps_total describe_steps]; intros H; try discriminate; eauto.
  - destruct (lookupN (a * 256 + q) sense_ascq_dict); eauto.
  - destruct (in_range vendor_specific_sense_asc a); eauto.
  - destruct (in_range vendor_specific_sense_ascq q); eauto.
Qed.

(* construction and description never raise *)
Definition sense_total_ok : bool :=
  forallb dispatch_entry_ok sense_dispatch && sense_str_guard && steps_total sense_ascq_steps
  && match sense_key_default, sense_init_asc, sense_init_ascq with
     | Some _, Some _, Some _ => true | _, _, _ => false end.

Theorem sense_total : sense_total_ok = true ->
  forall s, s <> [] -> exists c d, sense_new s = Ok c /\ describe c = Ok d.
Proof.
  unfold sense_total_ok. intros H s Hs. apply andb_prop in H as [H Hdef]. apply andb_prop in H as [H Hsteps]. apply andb_prop in H as [Hdisp Hguard].
  destruct sense_key_default as [kd|] eqn:Ekd; [|discriminate].
  destruct sense_init_asc as [ia|] eqn:Eia; [|discriminate].
  destruct sense_init_ascq as [iq|] eqn:Eiq; [|discriminate].
  destruct s as [|b0 s']; [congruence|]. unfold sense_new.
  destruct (find (handles (N.land b0 127)) sense_dispatch) as [[[[codes L] ak] qk]|] eqn:Ef.
  - apply find_some in Ef as [Hin _]. rewrite forallb_forall in Hdisp. specialize (Hdisp _ Hin).
    cbn [dispatch_entry_ok] in Hdisp. apply andb_prop in Hdisp as [Hd Hkeys]. apply andb_prop in Hd as [Htot Hnd].
    apply nodupb_NoDup in Hnd.
    destruct (decode_bits_total (b0 :: s') L Htot) as [d Hd]. rewrite Hd.
    destruct (lookup ak L) as [[ma oa|]|] eqn:La; try discriminate Hkeys.
    destruct (lookup qk L) as [[mq oq|]|] eqn:Lq; try discriminate Hkeys.
    destruct (lookup "sense_key" L) as [[mk ok|]|] eqn:Lk; try discriminate Hkeys.
    destruct (decode_bits_lookup _ _ _ _ _ Hd Hnd La) as (va & Hva & Dva).
    destruct (decode_bits_lookup _ _ _ _ _ Hd Hnd Lq) as (vq & Hvq & Dvq).
    destruct (decode_bits_lookup _ _ _ _ _ Hd Hnd Lk) as (vk & Hvk & Dvk).
    assert (Ia : exists a, va = VI a).
    { cbn [decode1] in Dva. destruct (ctz ma); inversion Dva; eauto. }
    assert (Iq : exists q, vq = VI q).
    { cbn [decode1] in Dvq. destruct (ctz mq); inversion Dvq; eauto. }
    assert (Ik : exists k, vk = VI k).
    { cbn [decode1] in Dvk. destruct (ctz mk); inversion Dvk; eauto. }
    destruct Ia as [a ->]. destruct Iq as [q ->]. destruct Ik as [k ->]. rewrite Hva, Hvq.
    assert (D : exists d0, describe (mkCC (N.land b0 127) d (Some a) (Some q)) = Ok d0).
    { unfold describe. cbn [cc_data cc_asc cc_ascq cc_rc]. rewrite Hvk, Ekd.
      unfold describe_ascq. destruct (steps_total_ok sense_ascq_steps a q Hsteps) as [t ->].
      destruct (lookupN k sense_key_dict); eexists; reflexivity. }
    destruct D as [d0 D]. exists (mkCC (N.land b0 127) d (Some a) (Some q)), d0. split; [reflexivity|exact D].
  - eexists. eexists. split; [reflexivity|]. unfold describe. cbn [cc_data lookup]. now rewrite Hguard.
Qed.

(* ---------- positions ---------- *)

(* the regenerated dispatch decodes each format with a table whose SENSE KEY / ASC / ASCQ entries are one-byte
   masks at the standard's positions *)
Definition entry_positions_ok (sp : list N * N * N * N) : bool :=
  let '(codes, kb, ab, qb) := sp in
  forallb (fun rc =>
    match find (handles rc) sense_dispatch with
    | Some (_, L, ak, qk) =>
        match lookup "sense_key" L, lookup ak L, lookup qk L with
        | Some (Mask mk o1), Some (Mask ma o2), Some (Mask mq o3) =>
            (mk =? 15) && (ma =? 255) && (mq =? 255) && (o1 =? kb) && (o2 =? ab) && (o3 =? qb)
        | _, _, _ => false
        end
    | None => false
    end) codes.
Definition sense_positions_ok : bool := forallb entry_positions_ok sense_positions && forallb dispatch_entry_ok sense_dispatch.

Theorem sense_positions_sound : sense_positions_ok = true ->
  forall codes kb ab qb, In (codes, kb, ab, qb) sense_positions ->
  forall b0 s', In (N.land b0 127) codes ->
  exists c, sense_new (b0 :: s') = Ok c /\
    lookup "sense_key" (cc_data c) = Some (VI (N.land (nth (N.to_nat kb) (b0 :: s') 0) 15)) /\
    cc_asc c = Some (nth (N.to_nat ab) (b0 :: s') 0 mod 256) /\
    cc_ascq c = Some (nth (N.to_nat qb) (b0 :: s') 0 mod 256).
Proof.
  unfold sense_positions_ok. intros H codes kb ab qb Hin b0 s' Hrc. apply andb_prop in H as [Hpos Hdisp].
  rewrite forallb_forall in Hpos. specialize (Hpos _ Hin). cbn [entry_positions_ok] in Hpos.
  rewrite forallb_forall in Hpos. specialize (Hpos _ Hrc).
  unfold sense_new.
  destruct (find (handles (N.land b0 127)) sense_dispatch) as [[[[cs L] ak] qk]|] eqn:Ef; [|discriminate].
  apply find_some in Ef as [HinD _]. rewrite forallb_forall in Hdisp. specialize (Hdisp _ HinD).
  cbn [dispatch_entry_ok] in Hdisp. apply andb_prop in Hdisp as [Hd _]. apply andb_prop in Hd as [Htot Hnd].
  apply nodupb_NoDup in Hnd.
  destruct (lookup "sense_key" L) as [[mk o1|]|] eqn:Lk; try discriminate Hpos.
  destruct (lookup ak L) as [[ma o2|]|] eqn:La; try discriminate Hpos.
  destruct (lookup qk L) as [[mq o3|]|] eqn:Lq; try discriminate Hpos.
  assert (Hm : mk = 15 /\ ma = 255 /\ mq = 255 /\ o1 = kb /\ o2 = ab /\ o3 = qb).
  { repeat (apply andb_prop in Hpos; destruct Hpos as [Hpos ?H]).
    repeat match goal with H : (_ =? _) = true |- _ => apply N.eqb_eq in H end. repeat split; assumption. }
  destruct Hm as (-> & -> & -> & -> & -> & ->).
  destruct (decode_bits_total (b0 :: s') L Htot) as [d Hd]. rewrite Hd.
  destruct (decode_bits_lookup _ _ _ _ _ Hd Hnd La) as (va & Hva & Dva).
  destruct (decode_bits_lookup _ _ _ _ _ Hd Hnd Lq) as (vq & Hvq & Dvq).
  destruct (decode_bits_lookup _ _ _ _ _ Hd Hnd Lk) as (vk & Hvk & Dvk).
  rewrite (decode1_byte _ 255 ab 0 ltac:(lia) eq_refl) in Dva. inversion Dva; subst va.
  rewrite (decode1_byte _ 255 qb 0 ltac:(lia) eq_refl) in Dvq. inversion Dvq; subst vq.
  rewrite (decode1_byte _ 15 kb 0 ltac:(lia) eq_refl) in Dvk. inversion Dvk; subst vk.
  rewrite Hva, Hvq. eexists. split; [reflexivity|]. cbn [cc_data cc_asc cc_ascq].
  rewrite Hvk. rewrite !N.shiftr_0_r.
  change 255 with (N.ones 8). rewrite !N.land_ones. change (2 ^ 8) with 256.
  repeat split; reflexivity.
Qed.

(* ---------- texts (compared without regard to letter case: T10's list is upper case) ---------- *)
Definition upper_ascii (c : Ascii.ascii) : Ascii.ascii :=
  let n := Ascii.N_of_ascii c in if (97 <=? n) && (n <=? 122) then Ascii.ascii_of_N (n - 32) else c.
Fixpoint upper (s : string) : string :=
  match s with EmptyString => EmptyString | String c s' => String (upper_ascii c) (upper s') end.
Definition texts_ok : bool :=
  forallb (fun e : N * string => match lookupN (fst e) sense_ascq_dict with
                                 | Some t => String.eqb (upper t) (upper (snd e)) | None => false end) t10_asc_subset.

(* an assigned code is DESCRIBED by its T10 text (the regenerated steps of _describe_ascq reach the table before anything else answers) *)
Definition described_ok : bool :=
  forallb (fun e : N * string => match describe_ascq (fst e / 256) (fst e mod 256) with
                                 | Ok t => String.eqb (upper t) (upper (snd e)) | Raise _ => false end) t10_asc_subset.
