(* Proofs/PyBuilders.v — the REGENERATED parameter-list builders (Gen/PyFuncs.v) under the semantics of Model/Py.v:
   PERSISTENT RESERVE OUT parameter lists are the header the library's table encodes — with the length fields set to the lengths
   of what actually follows — followed by exactly the TransportID(s) the TransportID builder returned. *)
From Coq Require Import String ZArith List Bool Lia.
From PS Require Import Base.Bytes Base.Result Model.Converter Model.Py Proofs.FacadeState Proofs.PyLemmas Gen.Tables Gen.PyFuncs.
Import ListNotations.
Set Default Timeout 120.
Open Scope string_scope.
Open Scope nat_scope.

Local Arguments py_slice : simpl never.
Local Arguments run : simpl never.
Local Arguments call_with : simpl never.
Local Arguments encode_pv : simpl never.
Local Arguments Z.add : simpl never.
Local Arguments Z.of_nat : simpl never.
Local Arguments Z.eqb : simpl never.
Local Arguments length : simpl never.
Local Arguments app : simpl never.
Local Arguments zeros : simpl never.
Local Arguments int_to_ba_z : simpl never.
Local Arguments int_to_ba : simpl never.
Local Arguments store_slice : simpl never.

Ltac lk := repeat (rewrite lookup_set_same || rewrite lookup_set_other by (let H := fresh in intro H; discriminate H)).
Ltac step := rewrite exec_block_cons; cbn [exec exec_simple eval eval_list eval_opt]; lk.

Definition PROUT := "scsi_cdb_persistentreserveout.PersistentReserveOut.marshall_dataout".
Definition MTI := "scsi_cdb_persistentreservein.PersistentReserveInReadFullStatus.marshall_transport_id".
Notation PF_prout := PF_scsi_cdb_persistentreserveout_PersistentReserveOut_marshall_dataout.
Definition T_ram := T_scsi_cdb_persistentreserveout__PersistentReserveOut___ram_parameter_list_bits.
Definition T_basic := T_scsi_cdb_persistentreserveout__PersistentReserveOut___basic_parameter_list_bits.

Lemma prout_lookup : lookup PROUT py_program = Some PF_prout.
Proof. vm_compute. reflexivity. Qed.
Lemma ram_table : lookup "scsi_cdb_persistentreserveout.PersistentReserveOut._ram_parameter_list_bits" all_tables = Some T_ram.
Proof. vm_compute. reflexivity. Qed.
Lemma basic_table : lookup "scsi_cdb_persistentreserveout.PersistentReserveOut._basic_parameter_list_bits" all_tables = Some T_basic.
Proof. vm_compute. reflexivity. Qed.

(* an OpCode object whose service-action enumeration assigns `v` to `name` *)
Definition opcode_has (op : pv) (name : string) (v : Z) : Prop :=
  exists od sad, op = PDict od /\ lookup "__obj__" od <> None /\ lookup "serviceaction" od = Some (PDict sad) /\
                 lookup "__obj__" sad <> None /\ lookup name sad = Some (PInt v).

Lemma eval_sa call ρ op name v : lookup "opcode" ρ = Some op -> opcode_has op name v ->
  eval call ρ (EAttr (EAttr (EVar "opcode") "serviceaction") name) = Ok (PInt v).
Proof.
  intros Hop (od & sad & -> & Ho & Hsa & Hso & Hn). cbn [eval]. rewrite Hop. cbn [attr_eval].
  destruct (lookup "__obj__" od); [|contradiction]. rewrite Hsa. cbn [attr_eval]. destruct (lookup "__obj__" sad); [|contradiction]. now rewrite Hn.
Qed.

Lemma eval_cmp call ρ o a b : eval call ρ (ECmp o a b) =
  match eval call ρ a with Raise x => Raise x | Ok v => match eval call ρ b with Raise x => Raise x | Ok w => cmp_eval o v w end end.
Proof. reflexivity. Qed.
Lemma eval_and call ρ a b : eval call ρ (EAnd a b) =
  match eval call ρ a with Raise x => Raise x | Ok v => if truthy v then eval call ρ b else Ok v end.
Proof. reflexivity. Qed.

(* REGISTER AND MOVE with a TransportID: 24-byte list encoded from the caller's values with TRANSPORTID PARAMETER DATA LENGTH set to the
   length of the TransportID that follows, then that TransportID *)
Theorem prout_register_and_move_exact : forall (op tid : pv) (sa : Z) (data : list (string * pv)) (tidb hdr : bytes) f,
  opcode_has op "REGISTER_AND_MOVE" sa ->
  lookup "transport_id" data = Some tid -> truthy tid = true ->
  call_fun all_tables py_program f MTI [tid] = Ok (PBytes tidb) ->
  encode_pv (dict_set data "transportid_length" (PInt (Z.of_nat (length tidb)))) T_ram (zeros 24) = Ok hdr ->
  call_fun all_tables py_program (S f) PROUT [op; PInt sa; PDict data] = Ok (PBytes (hdr ++ tidb)%list).
Proof.
  intros op tid sa data tidb hdr f Hop Htid Htr Hcall Henc.
  unfold call_fun, call_with. rewrite prout_lookup. cbn [fn_params bind_params PF_prout].
  rewrite run_S, exec_if. cbn [eval truthy]. cbn [fn_body PF_prout].
  rewrite exec_block_cons, exec_if.
  rewrite eval_cmp. erewrite eval_sa; [|reflexivity|exact Hop]. cbn [eval lookup String.eqb Ascii.eqb Bool.eqb cmp_eval py_eq as_int].
  rewrite Z.eqb_refl. cbn [truthy].
  step. cbn [lookup String.eqb Ascii.eqb Bool.eqb copy_eval].
  step. cbn [bytearray_eval as_int]. change (Z.ltb 24 0) with false. change (Z.ltb 1048576 24) with false. cbn iota. change (Z.to_nat 24) with 24.
  rewrite exec_block_cons, exec_if. cbn [eval]. lk. cbn [lookup String.eqb Ascii.eqb Bool.eqb]. rewrite Htid. rewrite Htr.
  step. cbn [lookup String.eqb Ascii.eqb Bool.eqb index_eval]. rewrite Htid.
  unfold call_fun, MTI in Hcall. rewrite Hcall.
  step. cbn [len_eval]. unfold with_var. lk. cbn [lookup String.eqb Ascii.eqb Bool.eqb update_at set_item].
  step. rewrite ram_table. unfold with_var. lk. rewrite Henc.
  step. cbn [bin_eval as_int]. reflexivity.
Qed.

Notation ENV0 op sa data := [("opcode", op); ("service_action", PInt sa); ("data", PDict data)].

(* the plain 24-byte list of every other service action *)
Theorem prout_basic_exact : forall (op : pv) (sa sam sar : Z) (data : list (string * pv)) (hdr : bytes) f,
  opcode_has op "REGISTER_AND_MOVE" sam -> opcode_has op "REGISTER" sar ->
  sa <> sam -> (sa <> sar \/ match lookup "spec_i_pt" data with Some v => truthy v = false | None => True end) ->
  encode_pv data T_basic (zeros 24) = Ok hdr ->
  call_fun all_tables py_program (S f) PROUT [op; PInt sa; PDict data] = Ok (PBytes hdr).
Proof.
  intros op sa sam sar data hdr f Hm Hr Hne Hor Henc.
  unfold call_fun, call_with. rewrite prout_lookup. cbn [fn_params bind_params PF_prout].
  rewrite run_S, exec_if. cbn [eval truthy]. cbn [fn_body PF_prout].
  rewrite exec_block_cons, exec_if.
  rewrite eval_cmp. erewrite eval_sa; [|reflexivity|exact Hm]. cbn [eval lookup String.eqb Ascii.eqb Bool.eqb cmp_eval py_eq as_int].
  destruct (Z.eqb_spec sa sam); [contradiction|]. cbn [truthy].
  rewrite exec_block_cons, exec_if. rewrite eval_and, eval_cmp. erewrite eval_sa; [|reflexivity|exact Hr].
  cbn [eval lookup String.eqb Ascii.eqb Bool.eqb cmp_eval py_eq as_int].
  assert (Hc : exists v, (if truthy (PBool (Z.eqb sa sar)) then Ok (match lookup "spec_i_pt" data with Some v => v | None => PNone end)
                          else Ok (PBool (Z.eqb sa sar))) = Ok v /\ truthy v = false).
  { destruct (Z.eqb_spec sa sar) as [->|]; cbn [truthy].
    - destruct Hor as [Hx|Hx]; [contradiction|]. destruct (lookup "spec_i_pt" data) as [v|]; eexists; split; try reflexivity; assumption.
    - eexists. split; reflexivity. }
  destruct Hc as (v & Hv & Hvf). rewrite Hv, Hvf.
  step. cbn [bytearray_eval as_int]. change (Z.ltb 24 0) with false. change (Z.ltb 1048576 24) with false. cbn iota. change (Z.to_nat 24) with 24.
  step. cbn [lookup String.eqb Ascii.eqb Bool.eqb]. rewrite basic_table. unfold with_var. lk. rewrite Henc.
  rewrite !exec_block_nil. step. reflexivity.
Qed.

(* REGISTER with SPEC_I_PT: 28-byte header whose TRANSPORTID PARAMETER DATA LENGTH (bytes 24..27) is the total length of the
   TransportIDs that follow, then every TransportID the builder returned, in the caller's order — for any number of them *)
Fixpoint tids_built (call : string -> list pv -> result pv) (ts : list pv) (bs : list bytes) : Prop :=
  match ts, bs with
  | [], [] => True
  | t :: ts', b :: bs' => call MTI [t] = Ok (PBytes b) /\ tids_built call ts' bs'
  | _, _ => False
  end.

Lemma spec_i_pt_loop call again : forall (ts : list pv) (bs done : list bytes) ρ,
  tids_built call ts bs -> lookup "transport_ids" ρ = Some (PList (map PBytes done)) ->
  exists ρ', for_iter all_tables call again "t"
               [SAppend "transport_ids" [] (ECall MTI [EVar "t"])] ts ρ = ONorm ρ' /\
    lookup "transport_ids" ρ' = Some (PList (map PBytes (done ++ bs))) /\
    (forall x, x <> "transport_ids" -> x <> "t" -> lookup x ρ' = lookup x ρ).
Proof.
  induction ts as [|t ts IH]; intros bs done ρ Hb Hl; destruct bs as [|b bs]; cbn [tids_built] in Hb; try contradiction.
  - exists ρ. cbn [for_iter]. rewrite app_nil_r. auto.
  - destruct Hb as [Hc Hb]. cbn [for_iter]. rewrite exec_block_cons. cbn [exec exec_simple eval eval_list]. lk. rewrite Hc.
    unfold with_var. lk. rewrite Hl. cbn [update_at]. rewrite exec_block_nil.
    destruct (IH bs (done ++ [b])%list (dict_set (dict_set ρ "t" t) "transport_ids" (PList (map PBytes done ++ [PBytes b]))) Hb) as (ρ' & Hrun & Hl' & Hfr).
    { lk. rewrite map_app. reflexivity. }
    exists ρ'. split; [exact Hrun|]. split; [rewrite Hl', <- app_assoc; reflexivity|].
    intros x H1 H2. rewrite Hfr by assumption. now rewrite !lookup_set_other by congruence.
Qed.

Lemma join_bytes_map (bs : list bytes) : join_bytes (map PBytes bs) = Ok (concat bs).
Proof. induction bs as [|b bs IH]; [reflexivity|]. cbn [map join_bytes concat]. now rewrite IH. Qed.

Theorem prout_register_spec_i_pt_exact : forall (op : pv) (sam sar : Z) (data : list (string * pv)) (sp : pv) (ts : list pv) (bs : list bytes) (hdr : bytes) f,
  opcode_has op "REGISTER_AND_MOVE" sam -> opcode_has op "REGISTER" sar -> sar <> sam ->
  lookup "spec_i_pt" data = Some sp -> truthy sp = true -> lookup "transport_ids" data = Some (PList ts) ->
  tids_built (call_with py_program (run all_tables py_program f)) ts bs ->
  encode_pv data T_basic (zeros 28) = Ok hdr -> length hdr = 28 ->
  call_fun all_tables py_program (S f) PROUT [op; PInt sar; PDict data]
  = Ok (PBytes (firstn 24 hdr ++ int_to_ba (N.of_nat (length (concat bs))) 4 ++ concat bs)%list).
Proof.
  intros op sam sar data sp ts bs hdr f Hm Hr Hne Hsp Htr Hts Hb Henc Hlen.
  unfold call_fun, call_with. rewrite prout_lookup. cbn [fn_params bind_params PF_prout].
  rewrite run_S, exec_if. cbn [eval truthy]. cbn [fn_body PF_prout].
  rewrite exec_block_cons, exec_if.
  rewrite eval_cmp. erewrite eval_sa; [|reflexivity|exact Hm]. cbn [eval lookup String.eqb Ascii.eqb Bool.eqb cmp_eval py_eq as_int].
  destruct (Z.eqb_spec sar sam); [contradiction|]. cbn [truthy].
  rewrite exec_block_cons, exec_if. rewrite eval_and, eval_cmp. erewrite eval_sa; [|reflexivity|exact Hr].
  cbn [eval lookup String.eqb Ascii.eqb Bool.eqb cmp_eval py_eq as_int]. rewrite Z.eqb_refl. cbn [truthy]. rewrite Hsp, Htr.
  step. cbn [bytearray_eval as_int]. change (Z.ltb 28 0) with false. change (Z.ltb 1048576 28) with false. cbn iota. change (Z.to_nat 28) with 28.
  step. cbn [lookup String.eqb Ascii.eqb Bool.eqb]. rewrite basic_table. unfold with_var. lk. rewrite Henc.
  step.
  rewrite exec_block_cons, exec_for. cbn [eval]. lk. cbn [lookup String.eqb Ascii.eqb Bool.eqb]. rewrite Hts. cbn [iter_items].
  match goal with |- context [for_iter _ ?c ?a "t" _ ts ?r0] =>
    destruct (spec_i_pt_loop c a ts bs [] r0 Hb ltac:(lk; reflexivity)) as (ρ' & Hrun & Hl & Hfr) end.
  unfold MTI in Hrun. rewrite Hrun. change (@nil bytes ++ bs)%list with bs in Hl.
  step. rewrite Hl. cbn [join_eval]. rewrite join_bytes_map.
  step. cbn [len_eval as_int]. unfold with_var. lk. rewrite Hfr by discriminate. lk.
  assert (Hi : int_to_ba_z (Z.of_nat (length (concat bs))) 4 = int_to_ba (N.of_nat (length (concat bs))) 4).
  { unfold int_to_ba_z. destruct (Z.leb_spec 0 (Z.of_nat (length (concat bs)))); [|lia].
    change (Z.to_nat (Z.min (Z.max 4 0) 4096)) with 4. f_equal. lia. }
  rewrite Hi.
  assert (Hs : forall x, store_slice (PBytes hdr) (Some (PInt 24)) (Some (PInt 28)) (PBytes x) = Ok (PBytes (firstn 24 hdr ++ x)%list)).
  { intros x. unfold store_slice. cbn [opt_int as_int]. unfold clip. rewrite Hlen.
    change (Z.ltb 24 0) with false. change (Z.ltb 28 0) with false. cbn iota.
    change (Z.to_nat (Z.min 24 (Z.of_nat 28))) with 24. change (Z.to_nat (Z.min 28 (Z.of_nat 28))) with 28. change (Nat.max 24 28) with 28.
    rewrite (skipn_all2 hdr) by lia. now rewrite app_nil_r. }
  rewrite Hs.
  step. cbn [bin_eval as_int]. rewrite <- app_assoc. reflexivity.
Qed.

(* ------------------------------------------------------------------ the iSCSI TransportID builder *)

Definition PAD4 := "scsi_cdb_persistentreservein._pad4_len".
Notation PF_mti := PF_scsi_cdb_persistentreservein_PersistentReserveInReadFullStatus_marshall_transport_id.
Definition T_tid := T_scsi_cdb_persistentreservein__PersistentReserveInReadFullStatus___transport_id_bits.

Lemma mti_lookup : lookup MTI py_program = Some PF_mti.
Proof. vm_compute. reflexivity. Qed.
Lemma pad4_lookup : lookup PAD4 py_program = Some PF_scsi_cdb_persistentreservein__pad4_len.
Proof. vm_compute. reflexivity. Qed.
Lemma tid_table : lookup "scsi_cdb_persistentreservein.PersistentReserveInReadFullStatus._transport_id_bits" all_tables = Some T_tid.
Proof. vm_compute. reflexivity. Qed.

(* len(s) + 1 rounded up to a multiple of four *)
Definition pad4 (n : nat) : nat := let l := n + 1 in if Nat.eqb (l mod 4) 0 then l else l + (4 - l mod 4).

Lemma pad4_props n : pad4 n mod 4 = 0 /\ n + 1 <= pad4 n /\ pad4 n <= n + 4.
Proof.
  unfold pad4. cbv zeta. pose proof (Nat.mod_upper_bound (n + 1) 4 ltac:(lia)) as Hb.
  destruct (Nat.eqb_spec ((n + 1) mod 4) 0) as [E|E].
  - repeat split; [exact E|lia|lia].
  - repeat split; [|lia|lia].
    pose proof (Nat.div_mod (n + 1) 4 ltac:(lia)) as Hd.
    replace (n + 1 + (4 - (n + 1) mod 4)) with (((n + 1) / 4 + 1) * 4) by lia. apply Nat.mod_mul. lia.
Qed.

Lemma pad4_call (name : bytes) f : 1 <= f ->
  call_with py_program (run all_tables py_program f) PAD4 [PBytes name] = Ok (PInt (Z.of_nat (pad4 (length name)))).
Proof.
  intros Hf. destruct f as [|f]; [lia|].
  unfold call_with. rewrite pad4_lookup. cbn [fn_params bind_params PF_scsi_cdb_persistentreservein__pad4_len].
  rewrite run_S, exec_if. cbn [eval truthy]. cbn [fn_body PF_scsi_cdb_persistentreservein__pad4_len].
  step. cbn [lookup String.eqb Ascii.eqb Bool.eqb len_eval bin_eval as_int].
  step. cbn [bin_eval as_int]. change (Z.eqb 4 0) with false. cbn iota.
  rewrite exec_block_cons, exec_if. cbn [eval]. lk. cbn [truthy].
  set (n := length name).
  assert (Hmod : ((Z.of_nat n + 1) mod 4)%Z = Z.of_nat ((n + 1) mod 4)).
  { rewrite Nat2Z.inj_mod. f_equal. lia. }
  unfold pad4. cbv zeta. fold n.
  destruct (Nat.eqb_spec ((n + 1) mod 4) 0) as [E|E].
  - rewrite Hmod, E. change (Z.eqb (Z.of_nat 0) 0) with true. cbn [negb]. rewrite exec_block_nil.
    step. f_equal. f_equal. lia.
  - rewrite Hmod. destruct (Z.eqb_spec (Z.of_nat ((n + 1) mod 4)) 0) as [E2|E2]; [lia|]. cbn [negb].
    step. cbn [bin_eval as_int]. f_equal. f_equal.
    pose proof (Nat.mod_upper_bound (n + 1) 4 ltac:(lia)). lia.
Qed.

Lemma skipn_repeat' {A} (x : A) n m : skipn n (repeat x m) = repeat x (m - n).
Proof. revert n. induction m as [|m IH]; intros [|n]; try reflexivity. cbn [repeat skipn Nat.sub]. apply IH. Qed.

Lemma zeros_S n : zeros (S n) = 0%N :: zeros n.
Proof. reflexivity. Qed.

(* iSCSI TransportID, TPID format 00b (name only): [05h, 00h, ADDITIONAL LENGTH (2 bytes), name, NUL padding] where ADDITIONAL LENGTH is
   the number of bytes that follow it = len(name)+1 rounded up to a multiple of four — for every (ASCII) name *)
Theorem iscsi_transport_id_format0 : forall (s : string) (name : bytes) f,
  bytes_of_string s = Some name -> 2 <= f ->
  (Z.of_nat (length name) <= 1000000)%Z ->
  call_fun all_tables py_program f MTI [PDict [("protocol_id", PInt 5); ("iscsi_name", PStr s)]]
  = Ok (PBytes ([5%N; 0%N] ++ int_to_ba (N.of_nat (pad4 (length name))) 2 ++ name ++ zeros (pad4 (length name) - length name))%list).
Proof.
  intros s name f Hs Hf Hn. destruct f as [|f]; [lia|].
  pose proof (pad4_props (length name)) as (Hp4 & Hplo & Phi). set (n := length name) in *. set (pad := pad4 n) in *.
  unfold call_fun, call_with. rewrite mti_lookup. cbn [fn_params bind_params PF_mti].
  rewrite run_S, exec_if. cbn [eval truthy]. cbn [fn_body PF_mti].
  step. cbn [lookup String.eqb Ascii.eqb Bool.eqb index_eval].
  rewrite exec_block_cons, exec_if. cbn [eval]. lk. cbn [cmp_eval py_eq as_int]. change (Z.eqb 5 5) with true. cbn [negb truthy].
  rewrite exec_block_nil.
  rewrite exec_block_cons, exec_if. cbn [eval]. lk. cbn [cmp_eval py_eq as_int]. change (Z.eqb 5 0) with false. cbn [truthy].
  rewrite exec_block_cons, exec_if. cbn [eval]. lk. cbn [cmp_eval py_eq as_int]. change (Z.eqb 5 3) with false. cbn [truthy].
  rewrite exec_block_cons, exec_if. cbn [eval]. lk. cbn [cmp_eval py_eq as_int]. change (Z.eqb 5 4) with false. cbn [truthy].
  rewrite exec_block_cons, exec_if. cbn [eval]. lk. cbn [cmp_eval py_eq as_int]. change (Z.eqb 5 5) with true. cbn [truthy].
  (* the two consistency guards *)
  rewrite exec_block_cons, exec_if. cbn [eval]. lk. cbn [lookup String.eqb Ascii.eqb Bool.eqb truthy]. rewrite exec_block_nil.
  rewrite exec_block_cons, exec_if. cbn [eval]. lk. cbn [lookup String.eqb Ascii.eqb Bool.eqb truthy].
  step. cbn [lookup String.eqb Ascii.eqb Bool.eqb index_eval]. rewrite exec_block_nil.
  step. cbn [encode_str_eval]. rewrite Hs.
  (* result = bytearray(4 + _pad4_len(_name)) *)
  step. pose proof (pad4_call name f ltac:(lia)) as Hpc. unfold PAD4 in Hpc. rewrite Hpc. clear Hpc. fold n. fold pad. cbn [bin_eval as_int bytearray_eval].
  destruct (Z.ltb_spec (4 + Z.of_nat pad) 0); [lia|]. destruct (Z.ltb_spec 1048576 (4 + Z.of_nat pad)); [lia|].
  replace (Z.to_nat (4 + Z.of_nat pad)) with (S (S (S (S pad)))) by lia.
  (* encode_dict(data, _transport_id_bits, result): only protocol_id is in the table *)
  step. cbn [lookup String.eqb Ascii.eqb Bool.eqb]. rewrite tid_table. unfold with_var. lk.
  assert (Henc : encode_pv [("protocol_id", PInt 5); ("iscsi_name", PStr s)] T_tid (zeros (S (S (S (S pad))))) = Ok (5%N :: 0%N :: 0%N :: 0%N :: zeros pad)).
  { unfold encode_pv, T_tid, T_scsi_cdb_persistentreservein__PersistentReserveInReadFullStatus___transport_id_bits.
    cbn [lookup String.eqb Ascii.eqb Bool.eqb as_int]. change (Z.ltb 5 0) with false. cbn iota. change (Z.to_N 5) with 5%N.
    unfold encode1. cbn [ctz pos_ctz]. change (nbytes 15) with 1. rewrite !zeros_S. change (length (0%N :: 0%N :: 0%N :: 0%N :: zeros pad)) with (S (S (S (S (length (zeros pad)))))).
    cbn [N.to_nat Nat.add Nat.leb]. reflexivity. }
  rewrite Henc. clear Henc.
  (* result[2:4] = scsi_int_to_ba(len(result) - 4, 2) *)
  step. cbn [len_eval bin_eval as_int]. change (length (5%N :: 0%N :: 0%N :: 0%N :: zeros pad)) with (S (S (S (S (length (zeros pad)))))). rewrite zeros_length.
  unfold with_var. lk.
  assert (Hi : int_to_ba_z (Z.of_nat (S (S (S (S pad)))) - 4) 2 = int_to_ba (N.of_nat pad) 2).
  { unfold int_to_ba_z. destruct (Z.leb_spec 0 (Z.of_nat (S (S (S (S pad)))) - 4)); [|lia].
    change (Z.to_nat (Z.min (Z.max 2 0) 4096)) with 2. f_equal. lia. }
  rewrite Hi.
  assert (Hs1 : forall a b : N, store_slice (PBytes (5%N :: 0%N :: 0%N :: 0%N :: zeros pad)) (Some (PInt 2)) (Some (PInt 4)) (PBytes [a; b])
                = Ok (PBytes (5%N :: 0%N :: a :: b :: zeros pad))).
  { intros a b. unfold store_slice. cbn [opt_int as_int]. unfold clip.
    change (length (5%N :: 0%N :: 0%N :: 0%N :: zeros pad)) with (S (S (S (S (length (zeros pad)))))). rewrite zeros_length.
    change (Z.ltb 2 0) with false. change (Z.ltb 4 0) with false. cbn iota.
    replace (Z.to_nat (Z.min 2 (Z.of_nat (S (S (S (S pad))))))) with 2 by lia. replace (Z.to_nat (Z.min 4 (Z.of_nat (S (S (S (S pad))))))) with 4 by lia.
    reflexivity. }
  assert (Hl2 : exists a b, int_to_ba (N.of_nat pad) 2 = [a; b]) by (eexists; eexists; reflexivity).
  destruct Hl2 as (a & b & Hab). rewrite Hab, Hs1.
  (* result[4 : len(_name) + 4] = _name *)
  step. cbn [len_eval bin_eval as_int]. unfold with_var. lk. fold n.
  assert (Hs2 : store_slice (PBytes (5%N :: 0%N :: a :: b :: zeros pad)) (Some (PInt 4)) (Some (PInt (Z.of_nat n + 4))) (PBytes name)
                = Ok (PBytes (5%N :: 0%N :: a :: b :: name ++ zeros (pad - n))%list)).
  { unfold store_slice. cbn [opt_int as_int]. unfold clip.
    change (length (5%N :: 0%N :: a :: b :: zeros pad)) with (S (S (S (S (length (zeros pad)))))). rewrite zeros_length.
    change (Z.ltb 4 0) with false. destruct (Z.ltb_spec (Z.of_nat n + 4) 0); [lia|]. cbn iota.
    replace (Z.to_nat (Z.min 4 (Z.of_nat (S (S (S (S pad))))))) with 4 by lia.
    replace (Z.to_nat (Z.min (Z.of_nat n + 4) (Z.of_nat (S (S (S (S pad))))))) with (4 + n) by lia.
    replace (Nat.max 4 (4 + n)) with (S (S (S (S n)))) by lia. cbn [firstn skipn]. f_equal. f_equal.
    change ((5%N :: 0%N :: a :: b :: name ++ zeros (pad - n))%list) with ([5%N; 0%N; a; b] ++ (name ++ zeros (pad - n)))%list.
    change ([5%N; 0%N; a; b] ++ name ++ skipn n (zeros pad))%list with ([5%N; 0%N; a; b] ++ (name ++ skipn n (zeros pad)))%list.
    f_equal. f_equal. unfold zeros. rewrite skipn_repeat'. reflexivity. }
  rewrite Hs2. rewrite !exec_block_nil.
  step. reflexivity.
Qed.

(* what a reader of SPC finds in that TransportID: ADDITIONAL LENGTH (bytes 2..3) is the number of bytes that follow it, the whole
   is a multiple of four bytes long, the name starts at byte 4 and is followed by at least one NUL *)
Definition iscsi_tid0 (name : bytes) : bytes :=
  ([5%N; 0%N] ++ int_to_ba (N.of_nat (pad4 (length name))) 2 ++ name ++ zeros (pad4 (length name) - length name))%list.

Theorem iscsi_tid0_honest : forall name : bytes, (Z.of_nat (length name) <= 65000)%Z ->
  let t := iscsi_tid0 name in
  length t = 4 + pad4 (length name) /\ length t mod 4 = 0 /\
  ba_to_int (firstn 2 (skipn 2 t)) = N.of_nat (length t - 4) /\
  firstn (length name) (skipn 4 t) = name /\ nth (4 + length name) t 1%N = 0%N.
Proof.
  intros name Hn t. pose proof (pad4_props (length name)) as (Hm & Hlo & Hhi). set (n := length name) in *. set (pad := pad4 n) in *.
  assert (Hl2 : exists a b, int_to_ba (N.of_nat pad) 2 = [a; b]) by (eexists; eexists; reflexivity).
  destruct Hl2 as (a & b & Hab).
  assert (Ht : t = (5%N :: 0%N :: a :: b :: name ++ zeros (pad - n))%list) by (unfold t, iscsi_tid0; fold n; fold pad; rewrite Hab; reflexivity).
  assert (Hlen : length t = 4 + pad).
  { rewrite Ht. change (length (5%N :: 0%N :: a :: b :: name ++ zeros (pad - n))%list) with (S (S (S (S (length (name ++ zeros (pad - n))%list))))).
    rewrite app_length, zeros_length. fold n. lia. }
  split; [exact Hlen|]. split.
  { rewrite Hlen. replace (4 + pad) with (pad + 1 * 4) by lia. rewrite Nat.mod_add by lia. exact Hm. }
  split.
  { rewrite Hlen. replace (4 + pad - 4) with pad by lia. rewrite Ht. cbn [skipn firstn]. rewrite <- Hab.
    rewrite ba_to_int_to_ba. apply N.mod_small. change (256 ^ N.of_nat 2)%N with 65536%N. lia. }
  split.
  { rewrite Ht. cbn [skipn]. unfold n. rewrite firstn_app, Nat.sub_diag, firstn_all. cbn [firstn]. apply app_nil_r. }
  rewrite Ht. change (4 + n) with (S (S (S (S n)))). cbn [nth]. rewrite app_nth2 by (fold n; lia). fold n. rewrite Nat.sub_diag.
  destruct (pad - n) as [|k] eqn:E; [lia|]. reflexivity.
Qed.

(* REGISTER AND MOVE with such a TransportID, closed form: the 24-byte list with TRANSPORTID PARAMETER DATA LENGTH = 4 + pad4(len name),
   then the TransportID *)
Theorem prout_register_and_move_iscsi : forall (op : pv) (sa : Z) (data : list (string * pv)) (s : string) (name hdr : bytes) f,
  opcode_has op "REGISTER_AND_MOVE" sa ->
  lookup "transport_id" data = Some (PDict [("protocol_id", PInt 5); ("iscsi_name", PStr s)]) ->
  bytes_of_string s = Some name -> (Z.of_nat (length name) <= 65000)%Z -> 2 <= f ->
  encode_pv (dict_set data "transportid_length" (PInt (Z.of_nat (4 + pad4 (length name))))) T_ram (zeros 24) = Ok hdr ->
  call_fun all_tables py_program (S f) PROUT [op; PInt sa; PDict data] = Ok (PBytes (hdr ++ iscsi_tid0 name)%list).
Proof.
  intros op sa data s name hdr f Hop Htid Hs Hn Hf Henc.
  apply (prout_register_and_move_exact op _ sa data (iscsi_tid0 name) hdr f Hop Htid eq_refl).
  - apply iscsi_transport_id_format0; [exact Hs|exact Hf|lia].
  - destruct (iscsi_tid0_honest name Hn) as (Hl & _). rewrite Hl. exact Henc.
Qed.
