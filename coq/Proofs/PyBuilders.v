(* Proofs/PyBuilders.v — the REGENERATED parameter-list builders (Gen/PyFuncs.v) under the semantics of Model/Py.v:
   PERSISTENT RESERVE OUT parameter lists are the header the library's table encodes — with the length fields set to the lengths
   of what actually follows — followed by exactly the TransportID(s) the TransportID builder returned. *)
From Coq Require Import String ZArith List Bool Lia.
From PS Require Import Base.Bytes Base.Result Model.Converter Model.Py Proofs.FacadeState Proofs.PyLemmas Gen.Tables Gen.PyFuncs.
Import ListNotations.
Set Default Timeout 120.
Open Scope string_scope.
Open Scope nat_scope.

Local Arguments py_slice : simpl never.
Local Arguments run : simpl never.
Local Arguments call_with : simpl never.
Local Arguments encode_pv : simpl never.
Local Arguments Z.add : simpl never.
Local Arguments Z.of_nat : simpl never.
Local Arguments Z.eqb : simpl never.
Local Arguments length : simpl never.
Local Arguments app : simpl never.
Local Arguments zeros : simpl never.
Local Arguments int_to_ba_z : simpl never.
Local Arguments store_slice : simpl never.

Ltac lk := repeat (rewrite lookup_set_same || rewrite lookup_set_other by (let H := fresh in intro H; discriminate H)).
Ltac step := rewrite exec_block_cons; cbn [exec exec_simple eval eval_list eval_opt]; lk.

Definition PROUT := "scsi_cdb_persistentreserveout.PersistentReserveOut.marshall_dataout".
Definition MTI := "scsi_cdb_persistentreservein.PersistentReserveInReadFullStatus.marshall_transport_id".
Notation PF_prout := PF_scsi_cdb_persistentreserveout_PersistentReserveOut_marshall_dataout.
Definition T_ram := T_scsi_cdb_persistentreserveout__PersistentReserveOut___ram_parameter_list_bits.
Definition T_basic := T_scsi_cdb_persistentreserveout__PersistentReserveOut___basic_parameter_list_bits.

Lemma prout_lookup : lookup PROUT py_program = Some PF_prout.
Proof. vm_compute. reflexivity. Qed.
Lemma ram_table : lookup "scsi_cdb_persistentreserveout.PersistentReserveOut._ram_parameter_list_bits" all_tables = Some T_ram.
Proof. vm_compute. reflexivity. Qed.
Lemma basic_table : lookup "scsi_cdb_persistentreserveout.PersistentReserveOut._basic_parameter_list_bits" all_tables = Some T_basic.
Proof. vm_compute. reflexivity. Qed.

(* an OpCode object whose service-action enumeration assigns `v` to `name` *)
Definition opcode_has (op : pv) (name : string) (v : Z) : Prop :=
  exists od sad, op = PDict od /\ lookup "__obj__" od <> None /\ lookup "serviceaction" od = Some (PDict sad) /\
                 lookup "__obj__" sad <> None /\ lookup name sad = Some (PInt v).

Lemma eval_sa call ρ op name v : lookup "opcode" ρ = Some op -> opcode_has op name v ->
  eval call ρ (EAttr (EAttr (EVar "opcode") "serviceaction") name) = Ok (PInt v).
Proof.
  intros Hop (od & sad & -> & Ho & Hsa & Hso & Hn). cbn [eval]. rewrite Hop. cbn [attr_eval].
  destruct (lookup "__obj__" od); [|contradiction]. rewrite Hsa. cbn [attr_eval]. destruct (lookup "__obj__" sad); [|contradiction]. now rewrite Hn.
Qed.

Lemma eval_cmp call ρ o a b : eval call ρ (ECmp o a b) =
  match eval call ρ a with Raise x => Raise x | Ok v => match eval call ρ b with Raise x => Raise x | Ok w => cmp_eval o v w end end.
Proof. reflexivity. Qed.
Lemma eval_and call ρ a b : eval call ρ (EAnd a b) =
  match eval call ρ a with Raise x => Raise x | Ok v => if truthy v then eval call ρ b else Ok v end.
Proof. reflexivity. Qed.

(* REGISTER AND MOVE with a TransportID: 24-byte list encoded from the caller's values with TRANSPORTID PARAMETER DATA LENGTH set to the
   length of the TransportID that follows, then that TransportID *)
Theorem prout_register_and_move_exact : forall (op tid : pv) (sa : Z) (data : list (string * pv)) (tidb hdr : bytes) f,
  opcode_has op "REGISTER_AND_MOVE" sa ->
  lookup "transport_id" data = Some tid -> truthy tid = true ->
  call_fun all_tables py_program f MTI [tid] = Ok (PBytes tidb) ->
  encode_pv (dict_set data "transportid_length" (PInt (Z.of_nat (length tidb)))) T_ram (zeros 24) = Ok hdr ->
  call_fun all_tables py_program (S f) PROUT [op; PInt sa; PDict data] = Ok (PBytes (hdr ++ tidb)%list).
Proof.
  intros op tid sa data tidb hdr f Hop Htid Htr Hcall Henc.
  unfold call_fun, call_with. rewrite prout_lookup. cbn [fn_params bind_params PF_prout].
  rewrite run_S, exec_if. cbn [eval truthy]. cbn [fn_body PF_prout].
  rewrite exec_block_cons, exec_if.
  rewrite eval_cmp. erewrite eval_sa; [|reflexivity|exact Hop]. cbn [eval lookup String.eqb Ascii.eqb Bool.eqb cmp_eval py_eq as_int].
  rewrite Z.eqb_refl. cbn [truthy].
  step. cbn [lookup String.eqb Ascii.eqb Bool.eqb copy_eval].
  step. cbn [bytearray_eval as_int]. change (Z.ltb 24 0) with false. change (Z.ltb 1048576 24) with false. cbn iota. change (Z.to_nat 24) with 24.
  rewrite exec_block_cons, exec_if. cbn [eval]. lk. cbn [lookup String.eqb Ascii.eqb Bool.eqb]. rewrite Htid. rewrite Htr.
  step. cbn [lookup String.eqb Ascii.eqb Bool.eqb index_eval]. rewrite Htid.
  unfold call_fun, MTI in Hcall. rewrite Hcall.
  step. cbn [len_eval]. unfold with_var. lk. cbn [lookup String.eqb Ascii.eqb Bool.eqb update_at set_item].
  step. rewrite ram_table. unfold with_var. lk. rewrite Henc.
  step. cbn [bin_eval as_int]. reflexivity.
Qed.

Notation ENV0 op sa data := [("opcode", op); ("service_action", PInt sa); ("data", PDict data)].

(* the plain 24-byte list of every other service action *)
Theorem prout_basic_exact : forall (op : pv) (sa sam sar : Z) (data : list (string * pv)) (hdr : bytes) f,
  opcode_has op "REGISTER_AND_MOVE" sam -> opcode_has op "REGISTER" sar ->
  sa <> sam -> (sa <> sar \/ match lookup "spec_i_pt" data with Some v => truthy v = false | None => True end) ->
  encode_pv data T_basic (zeros 24) = Ok hdr ->
  call_fun all_tables py_program (S f) PROUT [op; PInt sa; PDict data] = Ok (PBytes hdr).
Proof.
  intros op sa sam sar data hdr f Hm Hr Hne Hor Henc.
  unfold call_fun, call_with. rewrite prout_lookup. cbn [fn_params bind_params PF_prout].
  rewrite run_S, exec_if. cbn [eval truthy]. cbn [fn_body PF_prout].
  rewrite exec_block_cons, exec_if.
  rewrite eval_cmp. erewrite eval_sa; [|reflexivity|exact Hm]. cbn [eval lookup String.eqb Ascii.eqb Bool.eqb cmp_eval py_eq as_int].
  destruct (Z.eqb_spec sa sam); [contradiction|]. cbn [truthy].
  rewrite exec_block_cons, exec_if. rewrite eval_and, eval_cmp. erewrite eval_sa; [|reflexivity|exact Hr].
  cbn [eval lookup String.eqb Ascii.eqb Bool.eqb cmp_eval py_eq as_int].
  assert (Hc : exists v, (if truthy (PBool (Z.eqb sa sar)) then Ok (match lookup "spec_i_pt" data with Some v => v | None => PNone end)
                          else Ok (PBool (Z.eqb sa sar))) = Ok v /\ truthy v = false).
  { destruct (Z.eqb_spec sa sar) as [->|]; cbn [truthy].
    - destruct Hor as [Hx|Hx]; [contradiction|]. destruct (lookup "spec_i_pt" data) as [v|]; eexists; split; try reflexivity; assumption.
    - eexists. split; reflexivity. }
  destruct Hc as (v & Hv & Hvf). rewrite Hv, Hvf.
  step. cbn [bytearray_eval as_int]. change (Z.ltb 24 0) with false. change (Z.ltb 1048576 24) with false. cbn iota. change (Z.to_nat 24) with 24.
  step. cbn [lookup String.eqb Ascii.eqb Bool.eqb]. rewrite basic_table. unfold with_var. lk. rewrite Henc.
  rewrite !exec_block_nil. step. reflexivity.
Qed.

(* REGISTER with SPEC_I_PT: 28-byte header whose TRANSPORTID PARAMETER DATA LENGTH (bytes 24..27) is the total length of the
   TransportIDs that follow, then every TransportID the builder returned, in the caller's order — for any number of them *)
Fixpoint tids_built (call : string -> list pv -> result pv) (ts : list pv) (bs : list bytes) : Prop :=
  match ts, bs with
  | [], [] => True
  | t :: ts', b :: bs' => call MTI [t] = Ok (PBytes b) /\ tids_built call ts' bs'
  | _, _ => False
  end.

Lemma spec_i_pt_loop call again : forall (ts : list pv) (bs done : list bytes) ρ,
  tids_built call ts bs -> lookup "transport_ids" ρ = Some (PList (map PBytes done)) ->
  exists ρ', for_iter all_tables call again "t"
               [SAppend "transport_ids" [] (ECall MTI [EVar "t"])] ts ρ = ONorm ρ' /\
    lookup "transport_ids" ρ' = Some (PList (map PBytes (done ++ bs))) /\
    (forall x, x <> "transport_ids" -> x <> "t" -> lookup x ρ' = lookup x ρ).
Proof.
  induction ts as [|t ts IH]; intros bs done ρ Hb Hl; destruct bs as [|b bs]; cbn [tids_built] in Hb; try contradiction.
  - exists ρ. cbn [for_iter]. rewrite app_nil_r. auto.
  - destruct Hb as [Hc Hb]. cbn [for_iter]. rewrite exec_block_cons. cbn [exec exec_simple eval eval_list]. lk. rewrite Hc.
    unfold with_var. lk. rewrite Hl. cbn [update_at]. rewrite exec_block_nil.
    destruct (IH bs (done ++ [b])%list (dict_set (dict_set ρ "t" t) "transport_ids" (PList (map PBytes done ++ [PBytes b]))) Hb) as (ρ' & Hrun & Hl' & Hfr).
    { lk. rewrite map_app. reflexivity. }
    exists ρ'. split; [exact Hrun|]. split; [rewrite Hl', <- app_assoc; reflexivity|].
    intros x H1 H2. rewrite Hfr by assumption. now rewrite !lookup_set_other by congruence.
Qed.

Lemma join_bytes_map (bs : list bytes) : join_bytes (map PBytes bs) = Ok (concat bs).
Proof. induction bs as [|b bs IH]; [reflexivity|]. cbn [map join_bytes concat]. now rewrite IH. Qed.

Theorem prout_register_spec_i_pt_exact : forall (op : pv) (sam sar : Z) (data : list (string * pv)) (sp : pv) (ts : list pv) (bs : list bytes) (hdr : bytes) f,
  opcode_has op "REGISTER_AND_MOVE" sam -> opcode_has op "REGISTER" sar -> sar <> sam ->
  lookup "spec_i_pt" data = Some sp -> truthy sp = true -> lookup "transport_ids" data = Some (PList ts) ->
  tids_built (call_with py_program (run all_tables py_program f)) ts bs ->
  encode_pv data T_basic (zeros 28) = Ok hdr -> length hdr = 28 ->
  call_fun all_tables py_program (S f) PROUT [op; PInt sar; PDict data]
  = Ok (PBytes (firstn 24 hdr ++ int_to_ba (N.of_nat (length (concat bs))) 4 ++ concat bs)%list).
Proof.
  intros op sam sar data sp ts bs hdr f Hm Hr Hne Hsp Htr Hts Hb Henc Hlen.
  unfold call_fun, call_with. rewrite prout_lookup. cbn [fn_params bind_params PF_prout].
  rewrite run_S, exec_if. cbn [eval truthy]. cbn [fn_body PF_prout].
  rewrite exec_block_cons, exec_if.
  rewrite eval_cmp. erewrite eval_sa; [|reflexivity|exact Hm]. cbn [eval lookup String.eqb Ascii.eqb Bool.eqb cmp_eval py_eq as_int].
  destruct (Z.eqb_spec sar sam); [contradiction|]. cbn [truthy].
  rewrite exec_block_cons, exec_if. rewrite eval_and, eval_cmp. erewrite eval_sa; [|reflexivity|exact Hr].
  cbn [eval lookup String.eqb Ascii.eqb Bool.eqb cmp_eval py_eq as_int]. rewrite Z.eqb_refl. cbn [truthy]. rewrite Hsp, Htr.
  step. cbn [bytearray_eval as_int]. change (Z.ltb 28 0) with false. change (Z.ltb 1048576 28) with false. cbn iota. change (Z.to_nat 28) with 28.
  step. cbn [lookup String.eqb Ascii.eqb Bool.eqb]. rewrite basic_table. unfold with_var. lk. rewrite Henc.
  step.
  rewrite exec_block_cons, exec_for. cbn [eval]. lk. cbn [lookup String.eqb Ascii.eqb Bool.eqb]. rewrite Hts. cbn [iter_items].
  match goal with |- context [for_iter _ ?c ?a "t" _ ts ?r0] =>
    destruct (spec_i_pt_loop c a ts bs [] r0 Hb ltac:(lk; reflexivity)) as (ρ' & Hrun & Hl & Hfr) end.
  unfold MTI in Hrun. rewrite Hrun. change (@nil bytes ++ bs)%list with bs in Hl.
  step. rewrite Hl. cbn [join_eval]. rewrite join_bytes_map.
  step. cbn [len_eval as_int]. unfold with_var. lk. rewrite Hfr by discriminate. lk.
  assert (Hi : int_to_ba_z (Z.of_nat (length (concat bs))) 4 = int_to_ba (N.of_nat (length (concat bs))) 4).
  { unfold int_to_ba_z. destruct (Z.leb_spec 0 (Z.of_nat (length (concat bs)))); [|lia].
    change (Z.to_nat (Z.min (Z.max 4 0) 4096)) with 4. f_equal. lia. }
  rewrite Hi.
  assert (Hs : forall x, store_slice (PBytes hdr) (Some (PInt 24)) (Some (PInt 28)) (PBytes x) = Ok (PBytes (firstn 24 hdr ++ x)%list)).
  { intros x. unfold store_slice. cbn [opt_int as_int]. unfold clip. rewrite Hlen.
    change (Z.ltb 24 0) with false. change (Z.ltb 28 0) with false. cbn iota.
    change (Z.to_nat (Z.min 24 (Z.of_nat 28))) with 24. change (Z.to_nat (Z.min 28 (Z.of_nat 28))) with 28. change (Nat.max 24 28) with 28.
    rewrite (skipn_all2 hdr) by lia. now rewrite app_nil_r. }
  rewrite Hs.
  step. cbn [bin_eval as_int]. rewrite <- app_assoc. reflexivity.
Qed.
