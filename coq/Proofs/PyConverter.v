(* Proofs/PyConverter.v — the four functions of pyscsi/utils/converter.py, REGENERATED into Gen/PyConv.v as programs of the
   small Python (Model/Py.v), compute exactly what the hand-written codec model (Base/Bytes.v, Model/Converter.v) computes:
   for every value, width, byte string, layout and dictionary.  The codec laws (Proofs/Codec.v, Layout.v, RoundTrip.v) are
   theorems about that model; through this file they are theorems about the regenerated source text. *)
From Coq Require Import String ZArith NArith List Bool Lia.
From PS Require Import Base.Bytes Base.Result Model.Converter Model.Py Proofs.FacadeState Proofs.PyLemmas Proofs.Codec Gen.PyConv.
Import ListNotations.
Set Default Timeout 120.
Open Scope string_scope.
Open Scope nat_scope.

Local Arguments ba_to_int : simpl never.
Local Arguments int_to_ba : simpl never.
Local Arguments py_slice : simpl never.
Local Arguments run : simpl never.
Local Arguments call_with : simpl never.
Local Arguments Z.add : simpl never.
Local Arguments Z.mul : simpl never.
Local Arguments Z.sub : simpl never.
Local Arguments Z.of_N : simpl never.
Local Arguments Z.of_nat : simpl never.
Local Arguments Z.shiftr : simpl never.
Local Arguments Z.shiftl : simpl never.
Local Arguments Z.land : simpl never.
Local Arguments Z.ltb : simpl never.
Local Arguments Z.leb : simpl never.
Local Arguments Z.eqb : simpl never.
Local Arguments N.shiftr : simpl never.
Local Arguments N.shiftl : simpl never.
Local Arguments N.land : simpl never.
Local Arguments length : simpl never.
Local Arguments clip : simpl never.
Local Arguments seq : simpl never.
Local Arguments rev : simpl never.

Definition T0 : list (string * layout) := [].
Notation crun f := (run T0 conv_program f).
Notation ccall f := (call_with conv_program (run T0 conv_program f)).

Ltac lk := repeat (rewrite lookup_set_same || rewrite lookup_set_other by (let H := fresh in intro H; discriminate H)).

(* ------------------------------------------------------------------ Z / N bridges (8.16 has no N2Z.inj_shiftr / inj_land) *)
Lemma Z_of_N_shiftr a n : Z.shiftr (Z.of_N a) (Z.of_N n) = Z.of_N (N.shiftr a n).
Proof. rewrite Z.shiftr_div_pow2 by lia. rewrite N.shiftr_div_pow2, N2Z.inj_div, N2Z.inj_pow. reflexivity. Qed.
Lemma Z_of_N_shiftl a n : Z.shiftl (Z.of_N a) (Z.of_N n) = Z.of_N (N.shiftl a n).
Proof. rewrite Z.shiftl_mul_pow2 by lia. rewrite N.shiftl_mul_pow2, N2Z.inj_mul, N2Z.inj_pow. reflexivity. Qed.
Lemma Z_of_N_land a b : Z.land (Z.of_N a) (Z.of_N b) = Z.of_N (N.land a b).
Proof. destruct a, b; reflexivity. Qed.
Lemma Z_of_N_lxor a b : Z.lxor (Z.of_N a) (Z.of_N b) = Z.of_N (N.lxor a b).
Proof. destruct a, b; reflexivity. Qed.

(* ------------------------------------------------------------------ scsi_int_to_ba *)

Lemma byte_of_shift (v : N) (i : nat) :
  Z.to_N (Z.land (Z.shiftr (Z.of_N v) (Z.of_nat i * 8)) 255) = (N.shiftr v (8 * N.of_nat i) mod 256)%N.
Proof.
  replace (Z.of_nat i * 8)%Z with (Z.of_N (8 * N.of_nat i)) by lia.
  rewrite Z_of_N_shiftr. change 255%Z with (Z.of_N 255). rewrite Z_of_N_land, N2Z.id.
  change 255%N with (N.ones 8). rewrite N.land_ones. reflexivity.
Qed.

Lemma byte_of_shift_range (v : N) (i : nat) :
  let z := Z.land (Z.shiftr (Z.of_N v) (Z.of_nat i * 8)) 255 in ((0 <=? z) && (z <? 256))%Z = true.
Proof.
  cbv zeta. replace (Z.of_nat i * 8)%Z with (Z.of_N (8 * N.of_nat i)) by lia.
  rewrite Z_of_N_shiftr. change 255%Z with (Z.of_N 255). rewrite Z_of_N_land.
  change 255%N with (N.ones 8). rewrite N.land_ones.
  change (2 ^ 8)%N with 256%N.
  generalize (N.shiftr v (8 * N.of_nat i)). intros x.
  pose proof (N.mod_lt x 256 ltac:(discriminate)) as H.
  apply andb_true_intro. split; [apply Z.leb_le; apply N2Z.is_nonneg|apply Z.ltb_lt; apply N2Z.inj_lt in H; exact H].
Qed.

(* a comprehension whose element expression evaluates to g(item) for every item *)
Lemma eval_comp call ρ body x it v items (g : pv -> pv) :
  eval call ρ it = Ok v -> iter_items v = Ok items ->
  (forall i, In i items -> eval call (dict_set ρ x i) body = Ok (g i)) ->
  eval call ρ (EComp body x it) = Ok (PList (map g items)).
Proof.
  intros Hit Hitems Hbody. cbn [eval]. rewrite Hit, Hitems. clear Hit Hitems.
  induction items as [|i items IH]; [reflexivity|].
  rewrite (Hbody i (or_introl eq_refl)). cbn [map].
  match goal with |- context [match ?X with Ok ws => Ok (g i :: ws) | Raise e => Raise e end] => set (inner := X) in * end.
  assert (Hin : inner = Ok (map g items)).
  { specialize (IH (fun i0 H0 => Hbody i0 (or_intror H0))). subst inner.
    match type of IH with match ?Y with Ok ws => _ | Raise e => _ end = _ => destruct Y as [ws|e] eqn:E end;
      [injection IH as IH; now rewrite IH | discriminate IH]. }
  rewrite Hin. reflexivity.
Qed.

Lemma itb_bytes (v : N) (l : list nat) :
  bytes_of_pvlist (map (fun i => PInt (Z.land (Z.shiftr (Z.of_N v) (Z.of_nat i * 8)) 255)) l)
  = Ok (map (fun i => (N.shiftr v (8 * N.of_nat i) mod 256)%N) l).
Proof.
  induction l as [|i l IH]; [reflexivity|]. cbn [map bytes_of_pvlist as_int]. rewrite byte_of_shift_range, IH, byte_of_shift. reflexivity.
Qed.

Lemma int_to_ba_rev_seq (v : N) (n : nat) : map (fun i => (N.shiftr v (8 * N.of_nat i) mod 256)%N) (rev (seq 0 n)) = int_to_ba v n.
Proof.
  induction n as [|n IH]; [reflexivity|]. rewrite seq_S, rev_app_distr. cbn [rev app map Nat.add]. change (rev [n]) with [n]. cbn [app map].
  rewrite IH. reflexivity.
Qed.

Theorem py_int_to_ba : forall (v : N) (n : Z) f, (0 <= n <= 65536)%Z -> 1 <= f ->
  call_fun T0 conv_program f "converter.scsi_int_to_ba" [PInt (Z.of_N v); PInt n] = Ok (PBytes (int_to_ba v (Z.to_nat n))).
Proof.
  intros v n f Hn Hf. destruct f as [|f]; [lia|].
  unfold call_fun, call_with. cbn [lookup conv_program String.eqb Ascii.eqb Bool.eqb fn_params fn_body PC_scsi_int_to_ba bind_params].
  rewrite run_S, exec_if. cbn [eval truthy]. rewrite exec_block_cons. cbn [exec exec_simple].
  match goal with |- context [eval ?c ?r (EBytearray ?e)] =>
    assert (E : eval c r e = Ok (PList (map (fun i => match i with PInt z => PInt (Z.land (Z.shiftr (Z.of_N v) (z * 8)) 255) | _ => PNone end)
                                          (map (fun i => PInt (Z.of_nat i)) (rev (seq 0 (Z.to_nat n)))))))
  end.
  { eapply eval_comp.
    - cbn [eval lookup String.eqb Ascii.eqb Bool.eqb range_eval as_int]. destruct (Z.ltb_spec 65536 n); [lia|]. cbn [reversed_eval]. rewrite <- map_rev. reflexivity.
    - reflexivity.
    - intros i Hi. apply in_map_iff in Hi. destruct Hi as (k & <- & _). cbn [eval]. lk.
      cbn [lookup String.eqb Ascii.eqb Bool.eqb bin_eval as_int]. destruct (Z.ltb_spec (Z.of_nat k * 8) 0); [lia|]. reflexivity. }
  cbn [eval]. cbn [eval] in E. rewrite E. rewrite map_map. cbn [bytearray_eval]. rewrite itb_bytes, int_to_ba_rev_seq. reflexivity.
Qed.

(* ------------------------------------------------------------------ scsi_ba_to_int *)

Lemma ba_to_int_cons b r : ba_to_int (b :: r) = (b * 256 ^ N.of_nat (length r) + ba_to_int r)%N.
Proof. reflexivity. Qed.

Lemma sum_pvs_shifted (pre suf : bytes) (acc : Z) :
  sum_pvs (map (fun i => match i with
                         | PInt z => PInt (Z.shiftl (Z.of_N (nth (Z.to_nat z) (pre ++ suf)%list 0%N))
                                                    ((Z.of_nat (length (pre ++ suf)%list) - 1 - z) * 8))
                         | _ => PNone
                         end)
                (map (fun i => PInt (Z.of_nat i)) (seq (length pre) (length suf)))) acc
  = Ok (PInt (acc + Z.of_N (ba_to_int suf))).
Proof.
  revert pre acc. induction suf as [|b suf IH]; intros pre acc.
  - change (seq (length pre) (length (@nil N))) with (@nil nat). cbn [map sum_pvs]. change (ba_to_int []) with 0%N. f_equal. f_equal. lia.
  - change (length (b :: suf)) with (S (length suf)). rewrite <- cons_seq. cbn [map sum_pvs as_int].
    replace (pre ++ b :: suf)%list with ((pre ++ [b]) ++ suf)%list by (rewrite <- app_assoc; reflexivity).
    replace (S (length pre)) with (length (pre ++ [b])%list) by (rewrite app_length; change (length [b]) with 1; lia).
    rewrite (IH (pre ++ [b])%list). f_equal. f_equal.
    rewrite Nat2Z.id. rewrite <- app_assoc. cbn [app]. rewrite app_nth2 by lia. rewrite Nat.sub_diag. cbn [nth].
    rewrite ba_to_int_cons, N2Z.inj_add, N2Z.inj_mul, N2Z.inj_pow.
    rewrite !app_length. change (length (b :: suf)) with (S (length suf)).
    rewrite Z.shiftl_mul_pow2 by lia.
    replace ((Z.of_nat (length pre + S (length suf)) - 1 - Z.of_nat (length pre)) * 8)%Z with (8 * Z.of_nat (length suf))%Z by lia.
    rewrite Z.pow_mul_r by lia. change (2 ^ 8)%Z with 256%Z. change (Z.of_N 256) with 256%Z.
    rewrite nat_N_Z. lia.
Qed.

Theorem py_ba_to_int : forall (b : bytes) f, (Z.of_nat (length b) <= 65536)%Z -> 1 <= f ->
  call_fun T0 conv_program f "converter.scsi_ba_to_int" [PBytes b] = Ok (PInt (Z.of_N (ba_to_int b))).
Proof.
  intros b f Hb Hf. destruct f as [|f]; [lia|].
  unfold call_fun, call_with. cbn [lookup conv_program String.eqb Ascii.eqb Bool.eqb fn_params fn_body PC_scsi_ba_to_int bind_params].
  rewrite run_S, exec_if. cbn [eval truthy]. rewrite exec_block_cons. cbn [exec exec_simple].
  match goal with |- context [eval ?c ?r (ESum ?e)] =>
    assert (E : eval c r e = Ok (PList (map (fun i => match i with
                         | PInt z => PInt (Z.shiftl (Z.of_N (nth (Z.to_nat z) ([] ++ b)%list 0%N))
                                                    ((Z.of_nat (length ([] ++ b)%list) - 1 - z) * 8))
                         | _ => PNone
                         end)
                (map (fun i => PInt (Z.of_nat i)) (seq (length (@nil N)) (length b))))))
  end.
  { eapply eval_comp.
    - cbn [eval lookup String.eqb Ascii.eqb Bool.eqb len_eval range_eval as_int].
      destruct (Z.ltb_spec 65536 (Z.of_nat (length b))); [lia|]. rewrite Nat2Z.id. reflexivity.
    - reflexivity.
    - intros i Hi. apply in_map_iff in Hi. destruct Hi as (k & <- & Hk). apply in_seq in Hk. change (length (@nil N)) with 0 in Hk.
      cbn [eval]. lk. cbn [lookup String.eqb Ascii.eqb Bool.eqb index_eval as_int len_eval bin_eval app].
      unfold norm_index. destruct (Z.leb_spec 0 (Z.of_nat k)); [|lia]. destruct (Z.ltb_spec (Z.of_nat k) (Z.of_nat (length b))); [|lia].
      cbn [andb as_int bin_eval].
      destruct (Z.ltb_spec ((Z.of_nat (length b) - 1 - Z.of_nat k) * 8) 0); [lia|].
      destruct (Z.ltb_spec 1048576 ((Z.of_nat (length b) - 1 - Z.of_nat k) * 8)); [lia|]. reflexivity. }
  cbn [eval]. cbn [eval] in E. rewrite E. cbn [sum_eval]. rewrite sum_pvs_shifted. reflexivity.
Qed.

(* ------------------------------------------------------------------ the two loops of decode_bits / encode_dict *)

Lemma nbytes_le255 bm : (bm <= 255)%N -> nbytes bm = 1.
Proof.
  intros H. unfold nbytes. destruct (N.eq_dec bm 0) as [->|Hz]; [reflexivity|].
  rewrite size_eq by exact Hz.
  assert (N.log2 bm < 8)%N by (apply N.log2_lt_pow2; [lia|change (2 ^ 8)%N with 256%N; lia]).
  replace ((N.succ (N.log2 bm) + 7) / 8)%N with 1%N; [reflexivity|].
  apply N.div_unique with (r := N.log2 bm); lia.
Qed.

Lemma nbytes_gt255 bm : (255 < bm)%N -> nbytes bm = S (nbytes (N.shiftr bm 8)).
Proof.
  intros H. unfold nbytes.
  assert (Hz : bm <> 0%N) by lia.
  assert (H8 : (8 <= N.log2 bm)%N) by (change 8%N with (N.log2 256); apply N.log2_le_mono; lia).
  assert (Hs : N.shiftr bm 8 <> 0%N).
  { rewrite N.shiftr_div_pow2. change (2 ^ 8)%N with 256%N. intros E. apply N.div_small_iff in E; lia. }
  rewrite (size_eq bm Hz), (size_eq _ Hs), N.log2_shiftr.
  set (l := N.log2 bm) in *.
  replace ((N.succ l + 7) / 8)%N with (N.succ ((N.succ (l - 8) + 7) / 8))%N.
  - assert (Hq : (0 < (N.succ (l - 8) + 7) / 8)%N) by (apply N.div_str_pos; lia).
    set (q := ((N.succ (l - 8) + 7) / 8)%N) in *. rewrite !N.max_r by lia. lia.
  - replace (N.succ l + 7)%N with ((N.succ (l - 8) + 7) + 1 * 8)%N by lia. rewrite N.div_add by lia. lia.
Qed.

Definition agree_except (xs : list string) (ρ ρ' : env) : Prop := forall x, ~ In x xs -> lookup x ρ' = lookup x ρ.

Lemma agree_refl xs ρ : agree_except xs ρ ρ.
Proof. intros x _. reflexivity. Qed.
Lemma agree_set xs ρ ρ' x v : In x xs -> agree_except xs ρ ρ' -> agree_except xs ρ (dict_set ρ' x v).
Proof. intros Hx H y Hy. rewrite lookup_set_other by (intros ->; contradiction). apply H, Hy. Qed.

Notation nb_cond := (ECmp CGt (EVar "_bm") (EConst (PInt 255))).
Notation nb_body := [SAug "_bm" BShr (EConst (PInt 8)); SAug "_num" BAdd (EConst (PInt 1))].

Lemma nb_loop : forall (k : nat) (bm : N) (num : Z) ρ f,
  nbytes bm = S k -> k <= f ->
  lookup "_bm" ρ = Some (PInt (Z.of_N bm)) -> lookup "_num" ρ = Some (PInt num) ->
  exists ρ', crun (S f) (SWhile nb_cond nb_body) ρ = ONorm ρ' /\
     lookup "_num" ρ' = Some (PInt (num + Z.of_nat k)) /\ agree_except ["_bm"; "_num"] ρ ρ'.
Proof.
  induction k as [|k IH]; intros bm num ρ f Hn Hf Hbm Hnum.
  - assert (Hle : (bm <= 255)%N).
    { destruct (N.le_gt_cases bm 255) as [H|H]; [exact H|]. rewrite nbytes_gt255 in Hn by exact H. pose proof (nbytes_pos (N.shiftr bm 8)). lia. }
    rewrite run_S, exec_while. cbn [eval]. rewrite Hbm. cbn [cmp_eval as_int].
    destruct (Z.ltb_spec 255 (Z.of_N bm)); [lia|]. cbn [truthy]. exists ρ. split; [reflexivity|]. split; [|apply agree_refl].
    rewrite Hnum. f_equal. f_equal. lia.
  - assert (Hgt : (255 < bm)%N).
    { destruct (N.le_gt_cases bm 255) as [H|H]; [|exact H]. rewrite nbytes_le255 in Hn by exact H. lia. }
    rewrite nbytes_gt255 in Hn by exact Hgt. injection Hn as Hn.
    destruct f as [|f]; [lia|].
    rewrite run_S, exec_while. cbn [eval]. rewrite Hbm. cbn [cmp_eval as_int].
    destruct (Z.ltb_spec 255 (Z.of_N bm)); [|lia]. cbn [truthy].
    rewrite exec_block_cons. cbn [exec exec_simple eval]. rewrite Hbm. cbn [bin_eval as_int].
    destruct (Z.ltb_spec 8 0); [lia|].
    rewrite exec_block_cons. cbn [exec exec_simple eval]. lk. rewrite Hnum. cbn [bin_eval as_int]. rewrite exec_block_nil.
    change 8%Z with (Z.of_N 8). rewrite Z_of_N_shiftr.
    destruct (IH (N.shiftr bm 8) (num + 1)%Z (dict_set (dict_set ρ "_bm" (PInt (Z.of_N (N.shiftr bm 8)))) "_num" (PInt (num + 1))) f
                 Hn ltac:(lia) ltac:(lk; reflexivity) ltac:(lk; reflexivity)) as (ρ' & Hrun & Hnum' & Hag).
    exists ρ'. split; [exact Hrun|]. split.
    + rewrite Hnum'. f_equal. f_equal. lia.
    + intros x Hx. rewrite Hag by exact Hx. lk. 
      rewrite !lookup_set_other; [reflexivity| |]; intros ->; apply Hx; cbn; auto.
Qed.

(* while not x & 1: x >>= 1; y >>= 1      (decode)        /      while not x & 1: x >>= 1; y <<= 1      (encode) *)
Notation tz_cond x := (ENot (EBin BAnd (EVar x) (EConst (PInt 1)))).
Notation tz_body x y o := [SAug x BShr (EConst (PInt 1)); SAug y o (EConst (PInt 1))].

Lemma iter_succ_r' {A} n (f : A -> A) x : Nat.iter (S n) f x = Nat.iter n f (f x).
Proof. induction n as [|n IH]; [reflexivity|]. change (Nat.iter (S (S n)) f x) with (f (Nat.iter (S n) f x)). rewrite IH. reflexivity. Qed.

Lemma land1_even p : Z.land (Zpos p~0) 1 = 0%Z.  Proof. reflexivity. Qed.
Lemma land1_odd p : Z.land (Zpos p~1) 1 = 1%Z.  Proof. reflexivity. Qed.

Lemma tz_loop (x y : string) (o : binop) (step : N -> N) :
  x <> y -> (o = BShr /\ step = (fun v => N.shiftr v 1)) \/ (o = BShl /\ step = (fun v => N.shiftl v 1)) ->
  forall (p : positive) (v : N) ρ f,
  N.to_nat (pos_ctz p) <= f ->
  lookup x ρ = Some (PInt (Zpos p)) -> lookup y ρ = Some (PInt (Z.of_N v)) ->
  exists ρ', crun (S f) (SWhile (tz_cond x) (tz_body x y o)) ρ = ONorm ρ' /\
     lookup x ρ' = Some (PInt (Z.of_N (N.shiftr (Npos p) (pos_ctz p)))) /\
     lookup y ρ' = Some (PInt (Z.of_N (Nat.iter (N.to_nat (pos_ctz p)) step v))) /\ agree_except [x; y] ρ ρ'.
Proof.
  intros Hxy Ho. induction p as [p IH|p IH|]; intros v ρ f Hf Hx Hy.
  - rewrite run_S, exec_while. cbn [eval]. rewrite Hx. cbn [bin_eval as_int]. rewrite land1_odd. cbn [truthy negb Z.eqb].
    exists ρ. cbn [pos_ctz N.to_nat Nat.iter]. rewrite N.shiftr_0_r. repeat split; try assumption; try apply agree_refl.
  - cbn [pos_ctz] in *. rewrite N2Nat.inj_succ in Hf. destruct f as [|f]; [lia|].
    rewrite run_S, exec_while. cbn [eval]. rewrite Hx. cbn [bin_eval as_int]. rewrite land1_even. cbn [truthy negb Z.eqb].
    rewrite exec_block_cons. cbn [exec exec_simple eval]. rewrite Hx. cbn [bin_eval as_int].
    destruct (Z.ltb_spec 1 0); [lia|].
    rewrite exec_block_cons. cbn [exec exec_simple eval]. rewrite lookup_set_other by (intros E; apply Hxy; now symmetry). rewrite Hy.
    assert (Hsh : Z.shiftr (Zpos p~0) 1 = Zpos p) by reflexivity. rewrite Hsh.
    assert (Hval : bin_eval o (PInt (Z.of_N v)) (PInt 1) = Ok (PInt (Z.of_N (step v)))).
    { destruct Ho as [[-> ->]|[-> ->]]; cbn [bin_eval as_int]; destruct (Z.ltb_spec 1 0); try lia.
      - change 1%Z with (Z.of_N 1). now rewrite Z_of_N_shiftr.
      - destruct (Z.ltb_spec 1048576 1); [lia|]. change 1%Z with (Z.of_N 1). now rewrite Z_of_N_shiftl. }
    rewrite Hval. rewrite exec_block_nil.
    destruct (IH (step v) (dict_set (dict_set ρ x (PInt (Zpos p))) y (PInt (Z.of_N (step v)))) f ltac:(lia)) as (ρ' & Hrun & Hx' & Hy' & Hag).
    { rewrite lookup_set_other by exact Hxy. apply lookup_set_same. }
    { apply lookup_set_same. }
    exists ρ'. split; [exact Hrun|]. split; [|split].
    + rewrite Hx'. f_equal. f_equal. f_equal.
      rewrite <- N.add_1_l, <- N.shiftr_shiftr. f_equal.
    + rewrite Hy'. f_equal. f_equal. f_equal. rewrite N2Nat.inj_succ. rewrite iter_succ_r'. reflexivity.
    + intros z Hz. rewrite Hag by exact Hz. rewrite !lookup_set_other; [reflexivity| |]; intros ->; apply Hz; cbn; auto.
  - rewrite run_S, exec_while. cbn [eval]. rewrite Hx. cbn [bin_eval as_int]. 
    change (Z.land 1 1) with 1%Z. cbn [truthy negb Z.eqb].
    exists ρ. cbn [pos_ctz N.to_nat Nat.iter]. rewrite N.shiftr_0_r. repeat split; try assumption; try apply agree_refl.
Qed.

Lemma iter_shiftr v n : Nat.iter n (fun v => N.shiftr v 1) v = N.shiftr v (N.of_nat n).
Proof.
  induction n as [|n IH]; [now rewrite N.shiftr_0_r|]. change (Nat.iter (S n) (fun v => N.shiftr v 1) v) with (N.shiftr (Nat.iter n (fun v => N.shiftr v 1) v) 1).
  rewrite IH, N.shiftr_shiftr. f_equal. lia.
Qed.
Lemma iter_shiftl v n : Nat.iter n (fun v => N.shiftl v 1) v = N.shiftl v (N.of_nat n).
Proof.
  induction n as [|n IH]; [now rewrite N.shiftl_0_r|]. change (Nat.iter (S n) (fun v => N.shiftl v 1) v) with (N.shiftl (Nat.iter n (fun v => N.shiftl v 1) v) 1).
  rewrite IH, N.shiftl_shiftl. f_equal. lia.
Qed.


(* ------------------------------------------------------------------ layouts as Python values *)

Definition unit_name (u : N) : option string :=
  match u with 1%N => Some "b" | 2%N => Some "w" | 4%N => Some "dw" | _ => None end.
Definition pv_of_fdesc (f : fdesc) : pv :=
  match f with
  | Mask m o => PList [PInt (Z.of_N m); PInt (Z.of_N o)]
  | Blob u o len => PList [PStr (match unit_name u with Some s => s | None => "?" end); PInt (Z.of_N o); PInt (Z.of_N len)]
  end.
Definition pvs_of_layout (L : layout) : list (string * pv) := map (fun kf => (fst kf, pv_of_fdesc (snd kf))) L.
Definition pv_of_layout (L : layout) : pv := PDict (pvs_of_layout L).

(* what the model's decode1 returns when it returns *)
Definition dec1 (data : bytes) (f : fdesc) : value :=
  match f with
  | Mask m o => match ctz m with
                | Some z => VI (N.land (N.shiftr (ba_to_int (slice data (N.to_nat o) (N.to_nat o + nbytes m))) z) (N.shiftr m z))
                | None => VI 0
                end
  | Blob u o len => VB (slice data (N.to_nat o) (N.to_nat (o + len * u)))
  end.

Definition fdesc_py_ok (f : fdesc) : bool :=
  match f with
  | Mask m _ => (0 <? m)%N && (N.size m <=? 4096)%N
  | Blob u _ _ => match unit_name u with Some _ => true | None => false end
  end.
Definition fdesc_fuel (f : fdesc) : nat := match f with Mask m _ => N.to_nat (N.size m) + 9 | Blob _ _ _ => 1 end.

Lemma decode1_dec1 data f : fdesc_py_ok f = true -> decode1 data f = Ok (dec1 data f).
Proof.
  destruct f as [m o|u o len]; cbn [fdesc_py_ok decode1 dec1]; [|reflexivity].
  intros H. apply andb_prop in H. destruct H as [H _]. apply N.ltb_lt in H. destruct m as [|p]; [lia|]. reflexivity.
Qed.

Lemma py_slice_slice (l : bytes) (a b : N) :
  py_slice l (Some (Z.of_N a)) (Some (Z.of_N b)) = slice l (N.to_nat a) (N.to_nat b).
Proof.
  unfold py_slice, slice, clip.
  destruct (Z.ltb_spec (Z.of_N a) 0); [lia|]. destruct (Z.ltb_spec (Z.of_N b) 0); [lia|].
  destruct (Nat.le_gt_cases (N.to_nat a) (length l)) as [Ha|Ha].
  - replace (Z.to_nat (Z.min (Z.of_N a) (Z.of_nat (length l)))) with (N.to_nat a) by lia.
    destruct (Nat.le_gt_cases (N.to_nat b) (length l)) as [Hb|Hb].
    + replace (Z.to_nat (Z.min (Z.of_N b) (Z.of_nat (length l)))) with (N.to_nat b) by lia. reflexivity.
    + replace (Z.to_nat (Z.min (Z.of_N b) (Z.of_nat (length l)))) with (length l) by lia.
      rewrite !firstn_all2; [reflexivity| |]; rewrite skipn_length; lia.
  - replace (Z.to_nat (Z.min (Z.of_N a) (Z.of_nat (length l)))) with (length l) by lia.
    rewrite skipn_all. rewrite (skipn_all2 l) by lia. now rewrite !firstn_nil.
Qed.

Lemma nbytes_le_size m : nbytes m <= N.to_nat (N.size m) + 8.
Proof.
  unfold nbytes. assert ((N.size m + 7) / 8 <= N.size m + 7)%N by (apply N.div_le_upper_bound; lia). lia.
Qed.

Lemma pos_ctz_lt_size p : (pos_ctz p < N.size (Npos p))%N.
Proof.
  pose proof (ctz_le_log2 (Npos p) (pos_ctz p) eq_refl). rewrite size_eq by discriminate. lia.
Qed.

Lemma len2 {A} (a b : A) : length [a; b] = 2.  Proof. reflexivity. Qed.
Lemma len3 {A} (a b c : A) : length [a; b; c] = 3.  Proof. reflexivity. Qed.

Definition dec_for_body : list st := match nth 0 (fn_body PC_decode_bits) SPass with SFor _ _ b => b | _ => [] end.

Ltac step := rewrite exec_block_cons; cbn [exec exec_simple eval eval_list eval_opt]; lk.

Definition dec_if_then : list st := match nth 1 dec_for_body SPass with SIf _ a _ => a | _ => [] end.
Definition dec_if_else : list st := match nth 1 dec_for_body SPass with SIf _ _ b => b | _ => [] end.

Notation DEC_VARS := ["bitmask"; "byte_pos"; "_num"; "_bm"; "value"; "offset"; "length"].

Ltac agree_tac Hx := repeat (rewrite lookup_set_other; [|intros ->; apply Hx; cbn; tauto]).

Lemma dec_mask_block f data p o ρ :
  (N.size (Npos p) <= 4096)%N -> N.to_nat (N.size (Npos p)) + 9 <= f ->
  lookup "data" ρ = Some (PBytes data) -> lookup "val" ρ = Some (PList [PInt (Zpos p); PInt (Z.of_N o)]) ->
  exists ρ', exec_block T0 (ccall f) (crun f) dec_if_then ρ = ONorm ρ' /\
    lookup "value" ρ' = Some (pv_of_value (dec1 data (Mask (Npos p) o))) /\ agree_except DEC_VARS ρ ρ'.
Proof.
  intros Hsz Hf Hdata Hval. set (m := Npos p) in *.
  unfold dec_if_then, dec_for_body. cbn [fn_body PC_decode_bits nth].
  destruct f as [|f]; [lia|].
  step. rewrite Hval. cbn [iter_items]. rewrite !len2. cbn [Nat.eqb combine fold_left fst snd].
  step. step.
  (* first loop: the number of bytes the mask spans *)
  rewrite exec_block_cons, <- run_S.
  destruct (nbytes m) as [|k] eqn:Hnb; [pose proof (nbytes_pos m); lia|].
  pose proof (nbytes_le_size m) as Hnbs.
  match goal with |- context [crun (S (S f)) _ ?r] => 
    destruct (nb_loop k m 1 r (S f) Hnb ltac:(lia) ltac:(lk; reflexivity) ltac:(lk; reflexivity)) as (ρ1 & Hrun1 & Hnum1 & Hag1) end.
  rewrite Hrun1. clear Hrun1.
  (* value = scsi_ba_to_int(data[byte_pos : byte_pos + _num]) *)
  rewrite exec_block_cons. cbn [exec exec_simple eval eval_list eval_opt].
  rewrite Hnum1. rewrite !Hag1 by (cbn; intuition discriminate). lk. rewrite Hdata.
  cbn [bin_eval as_int slice_eval opt_int].
  replace (Z.of_N o + (1 + Z.of_nat k))%Z with (Z.of_N (o + N.of_nat (S k))) by lia.
  rewrite py_slice_slice.
  pose proof (py_ba_to_int (slice data (N.to_nat o) (N.to_nat (o + N.of_nat (S k)))) (S f)) as Hb2i.
  unfold call_fun in Hb2i. rewrite Hb2i; [|unfold slice; rewrite firstn_length; lia|lia]. clear Hb2i.
  (* second loop: shift the field down *)
  rewrite exec_block_cons, <- run_S.
  pose proof (pos_ctz_lt_size p) as Hctz. fold m in Hctz.
  match goal with |- context [crun (S (S f)) _ ?r] =>
    destruct (tz_loop "bitmask" "value" BShr (fun v => N.shiftr v 1) ltac:(discriminate) (or_introl (conj eq_refl eq_refl)) p
                (ba_to_int (slice data (N.to_nat o) (N.to_nat (o + N.of_nat (S k))))) r (S f) ltac:(lia))
      as (ρ2 & Hrun2 & Hbm2 & Hv2 & Hag2) end.
  { rewrite lookup_set_other by discriminate. rewrite Hag1 by (cbn; intuition discriminate). lk. reflexivity. }
  { apply lookup_set_same. }
  rewrite Hrun2. clear Hrun2.
  step. rewrite Hv2, Hbm2. cbn [bin_eval as_int]. rewrite Z_of_N_land. rewrite exec_block_nil.
  eexists. split; [reflexivity|]. split.
  - lk. cbn [dec1 ctz pv_of_value]. fold m. rewrite Hnb. rewrite iter_shiftr, N2Nat.id.
    replace (N.to_nat (o + N.of_nat (S k))) with (N.to_nat o + S k) by lia. reflexivity.
  - intros x Hx. agree_tac Hx. rewrite Hag2 by (cbn; cbn in Hx; tauto). agree_tac Hx.
    rewrite Hag1 by (cbn; cbn in Hx; tauto). agree_tac Hx. reflexivity.
Qed.

Lemma ni30 : norm_index 3 0 = Some 0.  Proof. reflexivity. Qed.

Lemma dec_blob_block f data u s o len ρ :
  unit_name u = Some s ->
  lookup "data" ρ = Some (PBytes data) -> lookup "val" ρ = Some (PList [PStr s; PInt (Z.of_N o); PInt (Z.of_N len)]) ->
  exists ρ', exec_block T0 (ccall f) (crun f) dec_if_else ρ = ONorm ρ' /\
    lookup "value" ρ' = Some (pv_of_value (dec1 data (Blob u o len))) /\ agree_except DEC_VARS ρ ρ'.
Proof.
  intros Hu Hdata Hval.
  unfold dec_if_else, dec_for_body. cbn [fn_body PC_decode_bits nth].
  assert (Hsl : forall a b c : pv, py_slice [a; b; c] (Some 1%Z) None = [b; c]) by reflexivity.
  assert (Hcases : (u = 1%N /\ s = "b") \/ (u = 2%N /\ s = "w") \/ (u = 4%N /\ s = "dw")).
  { unfold unit_name in Hu. destruct u as [|[[[]|[]|]|[[]|[]|]|]]; try discriminate; injection Hu as <-; auto. }
  destruct Hcases as [[-> ->]|[[-> ->]|[-> ->]]].
  - rewrite exec_block_cons, exec_if. cbn [eval]. rewrite Hval. cbn [index_eval as_int norm_index]. rewrite len3.
    rewrite ni30. cbn [nth Z.to_nat cmp_eval py_eq String.eqb Ascii.eqb Bool.eqb truthy].
    step. rewrite Hval. cbn [slice_eval opt_int as_int]. rewrite Hsl. cbn [iter_items]. rewrite !len2. cbn [Nat.eqb combine fold_left fst snd].
    step. rewrite Hdata. cbn [bin_eval as_int slice_eval opt_int]. rewrite exec_block_nil. rewrite exec_block_nil.
    replace (Z.of_N o + Z.of_N len)%Z with (Z.of_N (o + len * 1)) by lia. rewrite py_slice_slice.
    eexists. split; [reflexivity|]. split; [lk; reflexivity|].
    intros x Hx. agree_tac Hx. reflexivity.
  - rewrite exec_block_cons, exec_if. cbn [eval]. rewrite Hval. cbn [index_eval as_int norm_index]. rewrite len3.
    rewrite ni30. cbn [nth Z.to_nat cmp_eval py_eq String.eqb Ascii.eqb Bool.eqb truthy].
    rewrite exec_block_cons, exec_if. cbn [eval]. rewrite Hval. cbn [index_eval as_int norm_index]. rewrite len3.
    rewrite ni30. cbn [nth Z.to_nat cmp_eval py_eq String.eqb Ascii.eqb Bool.eqb truthy].
    step. rewrite Hval. cbn [slice_eval opt_int as_int]. rewrite Hsl. cbn [iter_items]. rewrite !len2. cbn [Nat.eqb combine fold_left fst snd].
    step. rewrite Hdata. cbn [bin_eval as_int slice_eval opt_int]. rewrite !exec_block_nil.
    replace (Z.of_N o + Z.of_N len * 2)%Z with (Z.of_N (o + len * 2)) by lia. rewrite py_slice_slice.
    eexists. split; [reflexivity|]. split; [lk; reflexivity|].
    intros x Hx. agree_tac Hx. reflexivity.
  - rewrite exec_block_cons, exec_if. cbn [eval]. rewrite Hval. cbn [index_eval as_int norm_index]. rewrite len3.
    rewrite ni30. cbn [nth Z.to_nat cmp_eval py_eq String.eqb Ascii.eqb Bool.eqb truthy].
    rewrite exec_block_cons, exec_if. cbn [eval]. rewrite Hval. cbn [index_eval as_int norm_index]. rewrite len3.
    rewrite ni30. cbn [nth Z.to_nat cmp_eval py_eq String.eqb Ascii.eqb Bool.eqb truthy].
    rewrite exec_block_cons, exec_if. cbn [eval]. rewrite Hval. cbn [index_eval as_int norm_index]. rewrite len3.
    rewrite ni30. cbn [nth Z.to_nat cmp_eval py_eq String.eqb Ascii.eqb Bool.eqb truthy].
    step. rewrite Hval. cbn [slice_eval opt_int as_int]. rewrite Hsl. cbn [iter_items]. rewrite !len2. cbn [Nat.eqb combine fold_left fst snd].
    step. rewrite Hdata. cbn [bin_eval as_int slice_eval opt_int]. rewrite !exec_block_nil.
    replace (Z.of_N o + Z.of_N len * 4)%Z with (Z.of_N (o + len * 4)) by lia. rewrite py_slice_slice.
    eexists. split; [reflexivity|]. split; [lk; reflexivity|].
    intros x Hx. agree_tac Hx. reflexivity.
Qed.

Ltac dec_tail Hrun Hvalue Hag Hres :=
  unfold dec_if_then, dec_if_else, dec_for_body in Hrun; cbn [fn_body PC_decode_bits nth] in Hrun;
  rewrite Hrun; step; rewrite Hvalue; rewrite !Hag by (cbn; intuition discriminate); lk; unfold with_var;
  rewrite !Hag by (cbn; intuition discriminate); lk; rewrite Hres; cbn [update_at set_item]; rewrite exec_block_nil;
  eexists; (split; [reflexivity|]); lk; rewrite !Hag by (cbn; intuition discriminate); lk; repeat split; assumption || reflexivity.

Lemma dec_entry f data LL k fd cur ρ :
  fdesc_py_ok fd = true -> fdesc_fuel fd <= f ->
  lookup "data" ρ = Some (PBytes data) -> lookup "check_dict" ρ = Some (PDict LL) ->
  lookup k LL = Some (pv_of_fdesc fd) -> lookup "result_dict" ρ = Some (PDict cur) ->
  exists ρ', exec_block T0 (ccall f) (crun f) dec_for_body (dict_set ρ "key" (PStr k)) = ONorm ρ' /\
    lookup "data" ρ' = Some (PBytes data) /\ lookup "check_dict" ρ' = Some (PDict LL) /\
    lookup "result_dict" ρ' = Some (PDict (dict_set cur k (pv_of_value (dec1 data fd)))).
Proof.
  intros Hok Hf Hdata Hcd Hlk Hres.
  unfold dec_for_body. cbn [fn_body PC_decode_bits nth].
  step. rewrite Hcd. cbn [index_eval]. rewrite Hlk.
  rewrite exec_block_cons, exec_if. cbn [eval]. lk.
  destruct fd as [m o|u o len]; cbn [fdesc_py_ok fdesc_fuel pv_of_fdesc len_eval] in *; rewrite ?len2, ?len3; cbn [cmp_eval py_eq as_int].
  - change (Z.eqb (Z.of_nat 2) 2) with true. cbn [truthy].
    apply andb_prop in Hok. destruct Hok as [Hpos Hsz]. apply N.ltb_lt in Hpos. apply N.leb_le in Hsz.
    destruct m as [|p]; [lia|].
    match goal with |- context [exec_block _ _ _ _ ?r] =>
      destruct (dec_mask_block f data p o r Hsz Hf ltac:(lk; exact Hdata) ltac:(lk; reflexivity)) as (ρ1 & Hrun & Hvalue & Hag) end.
    dec_tail Hrun Hvalue Hag Hres.
  - change (Z.eqb (Z.of_nat 3) 2) with false. cbn [truthy].
    destruct (unit_name u) as [s|] eqn:Hu; [|discriminate].
    match goal with |- context [exec_block _ _ _ _ ?r] =>
      destruct (dec_blob_block f data u s o len r Hu ltac:(lk; exact Hdata) ltac:(lk; reflexivity)) as (ρ1 & Hrun & Hvalue & Hag) end.
    dec_tail Hrun Hvalue Hag Hres.
Qed.

(* ------------------------------------------------------------------ decode_bits *)

Lemma lookup_mid {A B} (g : A -> B) (done rest : list (string * A)) k a :
  names_distinct (map fst (done ++ (k, a) :: rest)) = true ->
  lookup k (map (fun kf => (fst kf, g (snd kf))) (done ++ (k, a) :: rest)) = Some (g a).
Proof.
  induction done as [|[k0 a0] done IH]; cbn [app map fst snd names_distinct lookup]; intros H.
  - now rewrite String.eqb_refl.
  - apply andb_prop in H. destruct H as [H1 H2]. destruct (String.eqb_spec k k0) as [->|Hne]; [|auto].
    exfalso. apply negb_true_iff in H1. rewrite map_app in H1. cbn [map fst] in H1.
    rewrite existsb_app in H1. cbn [existsb] in H1. rewrite String.eqb_refl in H1. cbn in H1. now rewrite orb_true_r in H1.
Qed.

Definition dec_value (data : bytes) (kf : string * fdesc) : string * pv := (fst kf, pv_of_value (dec1 data (snd kf))).

Definition dec_inv (L : layout) (data : bytes) (cur : list (string * pv)) (ds : list pv) (ρ : env) : Prop :=
  exists done rest, L = (done ++ rest)%list /\ ds = map (fun kf => PStr (fst kf)) rest /\
    lookup "data" ρ = Some (PBytes data) /\ lookup "check_dict" ρ = Some (PDict (pvs_of_layout L)) /\
    lookup "result_dict" ρ = Some (PDict (dict_update cur (map (dec_value data) done))).

Lemma keys_of_layout (L : layout) :
  map (fun kv : string * pv => PStr (fst kv)) (pvs_of_layout L) = map (fun kf : string * fdesc => PStr (fst kf)) L.
Proof. unfold pvs_of_layout. rewrite map_map. reflexivity. Qed.

Theorem py_decode_bits : forall (L : layout) (data : bytes) (cur : list (string * pv)) f,
  forallb (fun kf => fdesc_py_ok (snd kf)) L = true -> names_distinct (map fst L) = true ->
  Forall (fun kf => fdesc_fuel (snd kf) <= f) L ->
  call_fun T0 conv_program (S f) "converter.decode_bits" [PBytes data; pv_of_layout L; PDict cur]
  = Ok (PDict (dict_update cur (map (dec_value data) L))).
Proof.
  intros L data cur f Hok Hdist Hfuel.
  unfold call_fun, call_with. cbn [lookup conv_program String.eqb Ascii.eqb Bool.eqb fn_params fn_body PC_decode_bits bind_params].
  rewrite run_S, exec_if. cbn [eval truthy].
  rewrite exec_block_cons, exec_for. cbn [eval lookup String.eqb Ascii.eqb Bool.eqb pv_of_layout iter_items].
  rewrite keys_of_layout. change (pv_of_layout L) with (PDict (pvs_of_layout L)).
  set (ρ0 := [("data", PBytes data); ("check_dict", PDict (pvs_of_layout L)); ("result_dict", PDict cur)]).
  pose proof (for_consumes T0 (ccall f) (crun f) "key" dec_for_body (dec_inv L data cur)) as FC.
  destruct (FC) with (ds := map (fun kf : string * fdesc => PStr (fst kf)) L) (ρ := ρ0) as (ρ' & Hrun & Hinv).
  - (* one iteration *)
    intros d ds ρ (done & rest & HL & Hds & Hdata & Hcd & Hres).
    destruct rest as [|[k fd] rest]; [discriminate|]. cbn [map fst] in Hds. injection Hds as -> ->.
    assert (Hin : In (k, fd) L) by (rewrite HL; apply in_or_app; right; now left).
    rewrite forallb_forall in Hok. pose proof (Hok _ Hin) as Hok1. rewrite Forall_forall in Hfuel. pose proof (Hfuel _ Hin) as Hf1. cbn [snd] in Hok1, Hf1.
    assert (Hlk : lookup k (pvs_of_layout L) = Some (pv_of_fdesc fd)).
    { unfold pvs_of_layout. rewrite HL. apply lookup_mid. rewrite <- HL. exact Hdist. }
    destruct (dec_entry f data (pvs_of_layout L) k fd _ ρ Hok1 Hf1 Hdata Hcd Hlk Hres) as (ρ1 & Hrun1 & Hd1 & Hc1 & Hr1).
    exists ρ1. split; [exact Hrun1|]. exists (done ++ [(k, fd)])%list, rest. repeat split; try assumption.
    + rewrite <- app_assoc. exact HL.
    + rewrite Hr1. f_equal. f_equal. unfold dict_update. rewrite map_app, fold_left_app. reflexivity.
  - exists [], L. repeat split; reflexivity.
  - unfold dec_for_body in Hrun. cbn [fn_body PC_decode_bits nth] in Hrun. rewrite Hrun.
    destruct Hinv as (done & rest & HL & Hds & _ & _ & Hres). symmetry in Hds. apply map_eq_nil in Hds. subst rest. rewrite app_nil_r in HL. subst done.
    rewrite exec_block_cons. cbn [exec exec_simple eval]. rewrite Hres. reflexivity.
Qed.

(* ... which is what the hand-written model computes *)
Lemma decode_bits_dec1 data L : forallb (fun kf => fdesc_py_ok (snd kf)) L = true ->
  decode_bits data L = Ok (map (fun kf => (fst kf, dec1 data (snd kf))) L).
Proof.
  induction L as [|[k fd] L IH]; cbn [forallb decode_bits map fst snd]; [reflexivity|].
  intros H. apply andb_prop in H. destruct H as [H1 H2]. rewrite (decode1_dec1 data fd H1), (IH H2). reflexivity.
Qed.

Theorem py_decode_bits_refines : forall (L : layout) (data : bytes) (cur : list (string * pv)) f r,
  forallb (fun kf => fdesc_py_ok (snd kf)) L = true -> names_distinct (map fst L) = true ->
  Forall (fun kf => fdesc_fuel (snd kf) <= f) L ->
  decode_bits data L = Ok r ->
  call_fun T0 conv_program (S f) "converter.decode_bits" [PBytes data; pv_of_layout L; PDict cur]
  = Ok (PDict (dict_update cur (dict_of_decoded r))).
Proof.
  intros L data cur f r Hok Hd Hf Hr. rewrite (decode_bits_dec1 data L Hok) in Hr. injection Hr as <-.
  rewrite py_decode_bits by assumption. unfold dict_of_decoded. rewrite map_map. reflexivity.
Qed.

(* ------------------------------------------------------------------ encode_dict: the byte-wise XOR loop *)

(* for i in range(len(v)): result[off + i] ^= v[i]   — consumed from the front *)
Fixpoint xor_from (cur : bytes) (off : nat) (v : bytes) : bytes :=
  match v with
  | [] => cur
  | b :: v' => xor_from (set_nth cur off (N.lxor (nth off cur 0%N) b)) (S off) v'
  end.

Lemma set_nth_app {A} (pre post : list A) c x : set_nth (pre ++ c :: post)%list (length pre) x = (pre ++ x :: post)%list.
Proof. induction pre as [|a pre IH]; [reflexivity|]. change (length (a :: pre)) with (S (length pre)). cbn [app set_nth]. now rewrite IH. Qed.

Lemma set_nth_length {A} (l : list A) n x : length (set_nth l n x) = length l.
Proof. revert n. induction l as [|a l IH]; intros [|n]; try reflexivity. change (length (set_nth (a :: l) (S n) x)) with (S (length (set_nth l n x))). now rewrite IH. Qed.

Lemma nth_app_mid {A} (pre post : list A) c d : nth (length pre) (pre ++ c :: post)%list d = c.
Proof. rewrite app_nth2 by lia. now rewrite Nat.sub_diag. Qed.

Lemma split_at {A} (l : list A) n d : n < length l -> l = (firstn n l ++ nth n l d :: skipn (S n) l)%list /\ length (firstn n l) = n.
Proof.
  intros H. split; [|rewrite firstn_length; lia].
  rewrite <- (firstn_skipn n l) at 1. f_equal. clear -H. revert n H. induction l as [|a l IH]; intros [|n] H.
  - change (length (@nil A)) with 0 in H. lia.
  - change (length (@nil A)) with 0 in H. lia.
  - reflexivity.
  - change (length (a :: l)) with (S (length l)) in H. cbn [skipn nth]. apply IH. lia.
Qed.

Lemma xor_at_cons (pre post : bytes) c b v :
  length v <= length post ->
  xor_at (pre ++ c :: post)%list (length pre) (b :: v) = (pre ++ N.lxor c b :: xor_list (firstn (length v) post) v ++ skipn (length v) post)%list.
Proof.
  intros H. unfold xor_at. change (length (b :: v)) with (S (length v)).
  rewrite firstn_app, Nat.sub_diag, firstn_all. cbn [firstn]. rewrite app_nil_r.
  rewrite skipn_app, skipn_all, Nat.sub_diag. cbn [skipn app firstn xor_list].
  replace (length pre + S (length v)) with (length (pre ++ [c]) + length v) by (rewrite app_length; change (length [c]) with 1; lia).
  replace (pre ++ c :: post)%list with ((pre ++ [c]) ++ post)%list by (rewrite <- app_assoc; reflexivity).
  rewrite skipn_app, skipn_all2 by lia. replace (length (pre ++ [c]) + length v - length (pre ++ [c])) with (length v) by lia.
  cbn [app]. reflexivity.
Qed.

Lemma xor_from_at : forall v r off, off + length v <= length r -> xor_from r off v = xor_at r off v.
Proof.
  induction v as [|b v IH]; intros r off H.
  - unfold xor_at. change (length (@nil N)) with 0. cbn [xor_from firstn xor_list app]. rewrite Nat.add_0_r. symmetry. apply firstn_skipn.
  - change (length (b :: v)) with (S (length v)) in H. cbn [xor_from].
    destruct (split_at r off 0%N ltac:(lia)) as [Hr Hl]. set (pre := firstn off r) in *. set (post := skipn (S off) r) in *. set (c := nth off r 0%N) in *.
    assert (Hpost : length v <= length post) by (unfold post; rewrite skipn_length; lia).
    rewrite Hr. clearbody pre post c. subst off. rewrite set_nth_app. rewrite xor_at_cons by exact Hpost.
    rewrite IH.
    + replace (S (length pre)) with (length (pre ++ [N.lxor c b])) by (rewrite app_length; change (length [N.lxor c b]) with 1; lia).
      replace (pre ++ N.lxor c b :: post)%list with ((pre ++ [N.lxor c b]) ++ post)%list by (rewrite <- app_assoc; reflexivity).
      unfold xor_at. rewrite firstn_app, Nat.sub_diag, firstn_all. cbn [firstn]. rewrite app_nil_r.
      rewrite skipn_app, skipn_all, Nat.sub_diag. cbn [skipn app].
      rewrite skipn_app, skipn_all2 by lia. replace (length (pre ++ [N.lxor c b]) + length v - length (pre ++ [N.lxor c b])) with (length v) by lia.
      cbn [app]. rewrite <- app_assoc. reflexivity.
    + rewrite app_length. change (length (N.lxor c b :: post)) with (S (length post)). lia.
Qed.

Lemma norm_index_in len (z : Z) : (0 <= z < Z.of_nat len)%Z -> norm_index len z = Some (Z.to_nat z).
Proof. intros H. unfold norm_index. destruct (Z.leb_spec 0 z); [|lia]. destruct (Z.ltb_spec z (Z.of_nat len)); [|lia]. reflexivity. Qed.

Lemma skipn_nth_cons {A} (l : list A) i d : i < length l -> skipn i l = nth i l d :: skipn (S i) l.
Proof.
  revert i. induction l as [|a l IH]; intros [|i] H; try (change (length (@nil A)) with 0 in H; lia); [reflexivity|].
  change (length (a :: l)) with (S (length l)) in H. cbn [skipn nth]. apply IH. lia.
Qed.

Lemma nth_ok (l : bytes) i : bytes_ok l -> (nth i l 0 < 256)%N.
Proof.
  intros H. destruct (Nat.lt_ge_cases i (length l)) as [Hi|Hi].
  - unfold bytes_ok in H. rewrite Forall_forall in H. apply H. now apply nth_In.
  - rewrite nth_overflow by exact Hi. lia.
Qed.

Lemma set_nth_ok (l : bytes) n x : bytes_ok l -> (x < 256)%N -> bytes_ok (set_nth l n x).
Proof.
  unfold bytes_ok. intros H Hx. revert n. induction H as [|a l Ha Hl IH]; intros n; [constructor|].
  destruct n as [|n]; cbn [set_nth]; constructor; auto.
Qed.

Notation xor_body := [SStore "result" [] (EBin BAdd (EVar "bytepos") (EVar "i"))
                        (EBin BXor (EIndex (EVar "result") (EBin BAdd (EVar "bytepos") (EVar "i"))) (EIndex (EVar "v") (EVar "i")))].

Definition xor_inv (r v : bytes) (off : nat) (ρ : env) (ds : list pv) (ρ' : env) : Prop :=
  exists i cur, i <= length v /\ ds = map (fun i => PInt (Z.of_nat i)) (seq i (length v - i)) /\
    lookup "result" ρ' = Some (PBytes cur) /\ length cur = length r /\ bytes_ok cur /\
    xor_from cur (off + i) (skipn i v) = xor_from r off v /\
    lookup "v" ρ' = Some (PBytes v) /\ lookup "bytepos" ρ' = Some (PInt (Z.of_nat off)) /\ agree_except ["result"; "i"] ρ ρ'.

Lemma xor_loop call again (r v : bytes) (off : nat) ρ :
  off + length v <= length r -> bytes_ok r -> bytes_ok v ->
  lookup "result" ρ = Some (PBytes r) -> lookup "v" ρ = Some (PBytes v) -> lookup "bytepos" ρ = Some (PInt (Z.of_nat off)) ->
  exists ρ', for_iter T0 call again "i" xor_body (map (fun i => PInt (Z.of_nat i)) (seq 0 (length v))) ρ = ONorm ρ' /\
    lookup "result" ρ' = Some (PBytes (xor_at r off v)) /\ agree_except ["result"; "i"] ρ ρ'.
Proof.
  intros Hlen Hr Hv Hres Hvv Hbp.
  destruct (for_consumes T0 call again "i" xor_body (xor_inv r v off ρ)) with (ds := map (fun i => PInt (Z.of_nat i)) (seq 0 (length v))) (ρ := ρ)
    as (ρ' & Hrun & Hinv).
  - intros d ds ρ1 (i & cur & Hi & Hds & Hres1 & Hlc & Hokc & Hx & Hv1 & Hb1 & Hag).
    destruct (length v - i) as [|m] eqn:Hm; [discriminate|]. rewrite <- cons_seq in Hds. cbn [map] in Hds. injection Hds as -> ->.
    assert (Hlt : i < length v) by lia.
    rewrite exec_block_cons. cbn [exec exec_simple eval eval_list]. lk. rewrite Hres1, Hb1, Hv1.
    cbn [bin_eval as_int index_eval].
    rewrite !norm_index_in by lia. cbn [bin_eval as_int]. rewrite Z_of_N_lxor.
    unfold with_var. lk. rewrite Hres1. cbn [update_at set_item as_int]. rewrite norm_index_in by lia.
    pose proof (nth_ok cur (Z.to_nat (Z.of_nat off + Z.of_nat i)) Hokc) as Hc256. pose proof (nth_ok v (Z.to_nat (Z.of_nat i)) Hv) as Hv256.
    pose proof (lxor_lt _ _ 8 Hc256 Hv256) as Hx256. change (2 ^ 8)%N with 256%N in Hx256.
    match goal with |- context [((0 <=? ?z) && (?z <? 256))%Z] => replace ((0 <=? z) && (z <? 256))%Z with true
      by (symmetry; apply andb_true_intro; split; [apply Z.leb_le|apply Z.ltb_lt]; lia) end.
    rewrite exec_block_nil. eexists. split; [reflexivity|].
    exists (S i), (set_nth cur (off + i) (N.lxor (nth (off + i) cur 0%N) (nth i v 0%N))).
    rewrite N2Z.id. replace (Z.to_nat (Z.of_nat off + Z.of_nat i)) with (off + i) by lia. rewrite Nat2Z.id.
    repeat split.
    + lia.
    + replace (length v - S i) with m by lia. reflexivity.
    + lk. reflexivity.
    + now rewrite set_nth_length.
    + apply set_nth_ok; [exact Hokc|]. rewrite Nat2Z.id in Hx256. replace (Z.to_nat (Z.of_nat off + Z.of_nat i)) with (off + i) in Hx256 by lia. exact Hx256.
    + rewrite <- Hx. rewrite (skipn_nth_cons v i 0%N Hlt). cbn [xor_from]. replace (off + S i) with (S (off + i)) by lia. reflexivity.
    + lk. exact Hv1.
    + lk. exact Hb1.
    + intros x Hxx. rewrite !lookup_set_other by (intros ->; apply Hxx; cbn; tauto). apply Hag, Hxx.
  - exists 0, r. rewrite Nat.sub_0_r, Nat.add_0_r. cbn [skipn]. repeat split; try assumption; try reflexivity; try lia; try apply agree_refl.
  - exists ρ'. split; [exact Hrun|]. destruct Hinv as (i & cur & Hi & Hds & Hres1 & Hlc & Hokc & Hx & _ & _ & Hag).
    assert (i = length v).
    { destruct (length v - i) as [|m] eqn:Hm; [lia|]. rewrite <- cons_seq in Hds. discriminate. }
    subst i. rewrite skipn_all in Hx. cbn [xor_from] in Hx. subst cur. split; [|exact Hag].
    rewrite Hres1. now rewrite xor_from_at.
Qed.

(* ------------------------------------------------------------------ encode_dict *)

Definition enc_for_body : list st := match nth 0 (fn_body PC_encode_dict) SPass with SFor _ _ b => b | _ => [] end.
Definition enc_known : list st := match nth 0 enc_for_body SPass with SIf _ _ b => b | _ => [] end.
Definition enc_if_then : list st := match nth 2 enc_known SPass with SIf _ a _ => a | _ => [] end.
Definition enc_if_else : list st := match nth 2 enc_known SPass with SIf _ _ b => b | _ => [] end.

Notation ENC_VARS := ["bitmask"; "bytepos"; "_num"; "_bm"; "value"; "offset"; "length"; "v"; "i"; "result"].

Lemma enc_mask_block f p o (x : N) r ρ :
  (N.size (Npos p) <= 4096)%N -> N.to_nat (N.size (Npos p)) + 9 <= f ->
  bytes_ok r -> N.to_nat o + nbytes (Npos p) <= length r ->
  lookup "result" ρ = Some (PBytes r) -> lookup "val" ρ = Some (PList [PInt (Zpos p); PInt (Z.of_N o)]) ->
  lookup "value" ρ = Some (PInt (Z.of_N x)) ->
  exists ρ', exec_block T0 (ccall f) (crun f) enc_if_then ρ = ONorm ρ' /\
    lookup "result" ρ' = Some (PBytes (xor_at r (N.to_nat o) (int_to_ba (N.shiftl x (pos_ctz p)) (nbytes (Npos p))))) /\
    agree_except ENC_VARS ρ ρ'.
Proof.
  intros Hsz Hf Hokr Hfit Hres Hval Hvalue. set (m := Npos p) in *.
  unfold enc_if_then, enc_known, enc_for_body. cbn [fn_body PC_encode_dict nth].
  destruct f as [|f]; [lia|].
  step. rewrite Hval. cbn [iter_items]. rewrite !len2. cbn [Nat.eqb combine fold_left fst snd].
  step. step.
  rewrite exec_block_cons, <- run_S.
  destruct (nbytes m) as [|k] eqn:Hnb; [pose proof (nbytes_pos m); lia|].
  pose proof (nbytes_le_size m) as Hnbs.
  match goal with |- context [crun (S (S f)) _ ?r0] =>
    destruct (nb_loop k m 1 r0 (S f) Hnb ltac:(lia) ltac:(lk; reflexivity) ltac:(lk; reflexivity)) as (ρ1 & Hrun1 & Hnum1 & Hag1) end.
  rewrite Hrun1. clear Hrun1.
  step. rewrite Hag1 by (cbn; intuition discriminate). lk.
  rewrite exec_block_cons, <- run_S.
  pose proof (pos_ctz_lt_size p) as Hctz. fold m in Hctz.
  match goal with |- context [crun (S (S f)) _ ?r0] =>
    destruct (tz_loop "_bm" "value" BShl (fun v => N.shiftl v 1) ltac:(discriminate) (or_intror (conj eq_refl eq_refl)) p x r0 (S f) ltac:(lia))
      as (ρ2 & Hrun2 & Hbm2 & Hv2 & Hag2) end.
  { apply lookup_set_same. }
  { rewrite lookup_set_other by discriminate. rewrite Hag1 by (cbn; intuition discriminate). lk. exact Hvalue. }
  rewrite Hrun2. clear Hrun2.
  (* v = scsi_int_to_ba(value, _num) *)
  rewrite exec_block_cons. cbn [exec exec_simple eval eval_list]. rewrite Hv2.
  rewrite Hag2 by (cbn; intuition discriminate). lk. rewrite Hnum1.
  rewrite iter_shiftl, N2Nat.id.
  pose proof (py_int_to_ba (N.shiftl x (pos_ctz p)) (1 + Z.of_nat k) (S f) ltac:(lia) ltac:(lia)) as Hi2b.
  unfold call_fun in Hi2b. rewrite Hi2b. clear Hi2b.
  replace (Z.to_nat (1 + Z.of_nat k)) with (S k) by lia.
  (* the XOR loop *)
  rewrite exec_block_cons, exec_for. cbn [eval]. lk. cbn [len_eval range_eval as_int]. rewrite int_to_ba_length.
  destruct (Z.ltb_spec 65536 (Z.of_nat (S k))); [lia|]. rewrite Nat2Z.id. cbn [iter_items].
  match goal with |- context [for_iter T0 ?c ?a "i" _ _ ?r0] =>
    destruct (xor_loop c a r (int_to_ba (N.shiftl x (pos_ctz p)) (S k)) (N.to_nat o) r0) as (ρ3 & Hrun3 & Hres3 & Hag3) end.
  { rewrite int_to_ba_length. exact Hfit. }
  { exact Hokr. }
  { apply int_to_ba_ok. }
  { lk. rewrite Hag2 by (cbn; intuition discriminate). lk. rewrite Hag1 by (cbn; intuition discriminate). lk. exact Hres. }
  { lk. reflexivity. }
  { lk. rewrite Hag2 by (cbn; intuition discriminate). lk. rewrite Hag1 by (cbn; intuition discriminate). lk. now rewrite N_nat_Z. }
  rewrite int_to_ba_length in Hrun3. rewrite Hrun3. rewrite exec_block_nil.
  eexists. split; [reflexivity|]. split; [exact Hres3|].
  intros y Hy. rewrite Hag3 by (cbn; cbn in Hy; tauto). agree_tac Hy. rewrite Hag2 by (cbn; cbn in Hy; tauto). agree_tac Hy.
  rewrite Hag1 by (cbn; cbn in Hy; tauto). agree_tac Hy. reflexivity.
Qed.

Lemma store_slice_model (l x : bytes) (a b : N) : (a <= b)%N ->
  store_slice (PBytes l) (Some (PInt (Z.of_N a))) (Some (PInt (Z.of_N b))) (PBytes x)
  = Ok (PBytes (firstn (N.to_nat a) l ++ x ++ skipn (N.to_nat b) l)%list).
Proof.
  intros Hab. unfold store_slice. cbn [opt_int as_int]. unfold clip.
  destruct (Z.ltb_spec (Z.of_N a) 0); [lia|]. destruct (Z.ltb_spec (Z.of_N b) 0); [lia|].
  f_equal. f_equal. f_equal; [|f_equal].
  - destruct (Nat.le_gt_cases (N.to_nat a) (length l)) as [Ha|Ha].
    + f_equal. lia.
    + rewrite (firstn_all2 (n := N.to_nat a)) by lia. apply firstn_all2. lia.
  - destruct (Nat.le_gt_cases (N.to_nat b) (length l)) as [Hb|Hb].
    + f_equal. lia.
    + rewrite (skipn_all2 (n := N.to_nat b)) by lia. apply skipn_all2. lia.
Qed.

Lemma enc_blob_block f u s o len (b r : bytes) ρ :
  unit_name u = Some s ->
  lookup "result" ρ = Some (PBytes r) -> lookup "val" ρ = Some (PList [PStr s; PInt (Z.of_N o); PInt (Z.of_N len)]) ->
  lookup "value" ρ = Some (PBytes b) ->
  exists ρ', exec_block T0 (ccall f) (crun f) enc_if_else ρ = ONorm ρ' /\
    lookup "result" ρ' = Some (PBytes (firstn (N.to_nat o) r ++ b ++ skipn (N.to_nat (o + len * u)) r)%list) /\
    agree_except ENC_VARS ρ ρ'.
Proof.
  intros Hu Hres Hval Hvalue.
  unfold enc_if_else, enc_known, enc_for_body. cbn [fn_body PC_encode_dict nth].
  assert (Hsl : forall a b c : pv, py_slice [a; b; c] (Some 1%Z) None = [b; c]) by reflexivity.
  assert (Hcases : (u = 1%N /\ s = "b") \/ (u = 2%N /\ s = "w") \/ (u = 4%N /\ s = "dw")).
  { unfold unit_name in Hu. destruct u as [|[[[]|[]|]|[[]|[]|]|]]; try discriminate; injection Hu as <-; auto. }
  destruct Hcases as [[-> ->]|[[-> ->]|[-> ->]]].
  - rewrite exec_block_cons, exec_if. cbn [eval]. rewrite Hval. cbn [index_eval as_int]. rewrite len3, ni30.
    cbn [nth Z.to_nat cmp_eval py_eq String.eqb Ascii.eqb Bool.eqb truthy].
    step. rewrite Hval. cbn [slice_eval opt_int as_int]. rewrite Hsl. cbn [iter_items]. rewrite !len2. cbn [Nat.eqb combine fold_left fst snd].
    step. rewrite Hvalue. cbn [bin_eval as_int]. unfold with_var. lk. rewrite Hres.
    replace (Z.of_N o + Z.of_N len)%Z with (Z.of_N (o + len * 1)) by lia. rewrite store_slice_model by lia. rewrite !exec_block_nil.
    eexists. split; [reflexivity|]. split; [lk; reflexivity|].
    intros x Hx. agree_tac Hx. reflexivity.
  - rewrite exec_block_cons, exec_if. cbn [eval]. rewrite Hval. cbn [index_eval as_int]. rewrite len3, ni30.
    cbn [nth Z.to_nat cmp_eval py_eq String.eqb Ascii.eqb Bool.eqb truthy].
    rewrite exec_block_cons, exec_if. cbn [eval]. rewrite Hval. cbn [index_eval as_int]. rewrite len3, ni30.
    cbn [nth Z.to_nat cmp_eval py_eq String.eqb Ascii.eqb Bool.eqb truthy].
    step. rewrite Hval. cbn [slice_eval opt_int as_int]. rewrite Hsl. cbn [iter_items]. rewrite !len2. cbn [Nat.eqb combine fold_left fst snd].
    step. rewrite Hvalue. cbn [bin_eval as_int]. unfold with_var. lk. rewrite Hres.
    replace (Z.of_N o + Z.of_N len * 2)%Z with (Z.of_N (o + len * 2)) by lia. rewrite store_slice_model by lia. rewrite !exec_block_nil.
    eexists. split; [reflexivity|]. split; [lk; reflexivity|].
    intros x Hx. agree_tac Hx. reflexivity.
  - rewrite exec_block_cons, exec_if. cbn [eval]. rewrite Hval. cbn [index_eval as_int]. rewrite len3, ni30.
    cbn [nth Z.to_nat cmp_eval py_eq String.eqb Ascii.eqb Bool.eqb truthy].
    rewrite exec_block_cons, exec_if. cbn [eval]. rewrite Hval. cbn [index_eval as_int]. rewrite len3, ni30.
    cbn [nth Z.to_nat cmp_eval py_eq String.eqb Ascii.eqb Bool.eqb truthy].
    rewrite exec_block_cons, exec_if. cbn [eval]. rewrite Hval. cbn [index_eval as_int]. rewrite len3, ni30.
    cbn [nth Z.to_nat cmp_eval py_eq String.eqb Ascii.eqb Bool.eqb truthy].
    step. rewrite Hval. cbn [slice_eval opt_int as_int]. rewrite Hsl. cbn [iter_items]. rewrite !len2. cbn [Nat.eqb combine fold_left fst snd].
    step. rewrite Hvalue. cbn [bin_eval as_int]. unfold with_var. lk. rewrite Hres.
    replace (Z.of_N o + Z.of_N len * 4)%Z with (Z.of_N (o + len * 4)) by lia. rewrite store_slice_model by lia. rewrite !exec_block_nil.
    eexists. split; [reflexivity|]. split; [lk; reflexivity|].
    intros x Hx. agree_tac Hx. reflexivity.
Qed.

Lemma lookup_map {A B} (g : A -> B) (l : list (string * A)) k :
  lookup k (map (fun kf => (fst kf, g (snd kf))) l) = option_map g (lookup k l).
Proof. induction l as [|[k0 a] l IH]; [reflexivity|]. cbn [map fst snd lookup]. destruct (String.eqb k k0); [reflexivity|exact IH]. Qed.

Lemma lookup_in {A} (l : list (string * A)) k a : lookup k l = Some a -> In (k, a) l.
Proof.
  induction l as [|[k0 a0] l IH]; [discriminate|]. cbn [lookup]. destruct (String.eqb_spec k k0) as [->|].
  - intros [= ->]. now left.
  - intros H. right. auto.
Qed.

Definition values_ok (dv : list (string * value)) : Prop :=
  Forall (fun kv => match snd kv with VB b => bytes_ok b | VI _ => True end) dv.

Definition enc_inv (L : layout) (dv : list (string * value)) (r' : bytes) (ds : list pv) (ρ : env) : Prop :=
  exists done rest cur, dv = (done ++ rest)%list /\ ds = map (fun kv => PStr (fst kv)) rest /\
    lookup "data_dict" ρ = Some (PDict (dict_of_decoded dv)) /\ lookup "check_dict" ρ = Some (PDict (pvs_of_layout L)) /\
    lookup "result" ρ = Some (PBytes cur) /\ bytes_ok cur /\ encode_dict rest L cur = Ok r'.

Lemma enc_entry f L dv r' k v rest done cur ρ :
  forallb (fun kf => fdesc_py_ok (snd kf)) L = true -> Forall (fun kf => fdesc_fuel (snd kf) <= f) L ->
  names_distinct (map fst dv) = true -> values_ok dv -> dv = (done ++ (k, v) :: rest)%list ->
  lookup "data_dict" ρ = Some (PDict (dict_of_decoded dv)) -> lookup "check_dict" ρ = Some (PDict (pvs_of_layout L)) ->
  lookup "result" ρ = Some (PBytes cur) -> bytes_ok cur -> encode_dict ((k, v) :: rest) L cur = Ok r' ->
  exists ρ' cur', exec_block T0 (ccall f) (crun f) enc_for_body (dict_set ρ "key" (PStr k)) = ONorm ρ' /\
    lookup "data_dict" ρ' = Some (PDict (dict_of_decoded dv)) /\ lookup "check_dict" ρ' = Some (PDict (pvs_of_layout L)) /\
    lookup "result" ρ' = Some (PBytes cur') /\ bytes_ok cur' /\ encode_dict rest L cur' = Ok r'.
Proof.
  intros Hok Hfuel Hdist Hvals Hdv Hdd Hcd Hres Hokc Henc.
  unfold enc_for_body. cbn [fn_body PC_encode_dict nth].
  rewrite exec_block_cons, exec_if. cbn [eval]. lk. rewrite Hcd. cbn [in_eval]. unfold pvs_of_layout at 1. rewrite lookup_map.
  cbn [encode_dict] in Henc.
  destruct (lookup k L) as [fd|] eqn:Hlk; cbn [option_map negb truthy].
  2:{ rewrite exec_block_nil, exec_block_nil. exists (dict_set ρ "key" (PStr k)), cur. lk. repeat split; assumption. }
  destruct (encode1 cur fd v) as [cur'|e] eqn:He1; [|discriminate].
  pose proof (lookup_in _ _ _ Hlk) as Hin.
  rewrite forallb_forall in Hok. pose proof (Hok _ Hin) as Hok1. rewrite Forall_forall in Hfuel. pose proof (Hfuel _ Hin) as Hf1. cbn [snd] in Hok1, Hf1.
  assert (Hv : In (k, v) dv) by (rewrite Hdv; apply in_or_app; right; now left).
  unfold values_ok in Hvals. rewrite Forall_forall in Hvals. pose proof (Hvals _ Hv) as Hvok. cbn [snd] in Hvok.
  fold enc_known.
  change (exec_block T0 (ccall f) (crun f) _ (dict_set ρ "key" (PStr k))) with (exec_block T0 (ccall f) (crun f) enc_known (dict_set ρ "key" (PStr k))).
  unfold enc_known, enc_for_body. cbn [fn_body PC_encode_dict nth].
  assert (Hlkv : lookup k (dict_of_decoded dv) = Some (pv_of_value v)).
  { unfold dict_of_decoded. rewrite Hdv. apply (lookup_mid pv_of_value). rewrite <- Hdv. exact Hdist. }
  step. rewrite Hdd. cbn [index_eval]. rewrite Hlkv.
  step. rewrite Hcd. cbn [index_eval]. unfold pvs_of_layout at 1. rewrite lookup_map, Hlk. cbn [option_map].
  rewrite exec_block_cons, exec_if. cbn [eval]. lk.
  destruct fd as [m o|u o len]; cbn [fdesc_py_ok fdesc_fuel pv_of_fdesc len_eval] in *; rewrite ?len2, ?len3; cbn [cmp_eval py_eq as_int].
  - change (Z.eqb (Z.of_nat 2) 2) with true. cbn [truthy].
    apply andb_prop in Hok1. destruct Hok1 as [Hpos Hsz]. apply N.ltb_lt in Hpos. apply N.leb_le in Hsz.
    destruct m as [|p]; [lia|]. destruct v as [x|b]; [|discriminate He1]. cbn [encode1 ctz] in He1.
    destruct (Nat.leb_spec (N.to_nat o + nbytes (Npos p)) (length cur)) as [Hfit|]; [|discriminate]. injection He1 as <-.
    match goal with |- context [exec_block _ _ _ _ ?r0] =>
      destruct (enc_mask_block f p o x cur r0 Hsz Hf1 Hokc Hfit ltac:(lk; exact Hres) ltac:(lk; reflexivity) ltac:(lk; reflexivity))
        as (ρ1 & Hrun & Hres1 & Hag) end.
    unfold enc_if_then, enc_known, enc_for_body in Hrun. cbn [fn_body PC_encode_dict nth] in Hrun. rewrite Hrun. rewrite !exec_block_nil.
    eexists ρ1, _. split; [reflexivity|]. rewrite !Hag by (cbn; intuition discriminate). lk.
    split; [exact Hdd|]. split; [exact Hcd|]. split; [exact Hres1|]. split; [|exact Henc].
    apply xor_at_ok; [exact Hokc|apply int_to_ba_ok].
  - change (Z.eqb (Z.of_nat 3) 2) with false. cbn [truthy].
    destruct (unit_name u) as [s|] eqn:Hu; [|discriminate]. destruct v as [x|b]; [discriminate He1|]. cbn [encode1] in He1. injection He1 as <-.
    match goal with |- context [exec_block _ _ _ _ ?r0] =>
      destruct (enc_blob_block f u s o len b cur r0 Hu ltac:(lk; exact Hres) ltac:(lk; reflexivity) ltac:(lk; reflexivity))
        as (ρ1 & Hrun & Hres1 & Hag) end.
    unfold enc_if_else, enc_known, enc_for_body in Hrun. cbn [fn_body PC_encode_dict nth] in Hrun. rewrite Hrun. rewrite !exec_block_nil.
    eexists ρ1, _. split; [reflexivity|]. rewrite !Hag by (cbn; intuition discriminate). lk.
    split; [exact Hdd|]. split; [exact Hcd|]. split; [exact Hres1|]. split; [|exact Henc].
    apply bytes_ok_app. split; [now apply bytes_ok_firstn|]. apply bytes_ok_app. split; [exact Hvok|now apply bytes_ok_skipn].
Qed.

Lemma keys_of_dict (dv : list (string * value)) :
  map (fun kv : string * pv => PStr (fst kv)) (dict_of_decoded dv) = map (fun kv : string * value => PStr (fst kv)) dv.
Proof. unfold dict_of_decoded. rewrite map_map. reflexivity. Qed.

(* encode_dict of the regenerated source = encode_dict of the hand-written model, whenever the model returns a buffer *)
Theorem py_encode_dict_refines : forall (L : layout) (dv : list (string * value)) (r r' : bytes) f,
  forallb (fun kf => fdesc_py_ok (snd kf)) L = true -> Forall (fun kf => fdesc_fuel (snd kf) <= f) L ->
  names_distinct (map fst dv) = true -> values_ok dv -> bytes_ok r ->
  encode_dict dv L r = Ok r' ->
  call_fun T0 conv_program (S f) "converter.encode_dict" [PDict (dict_of_decoded dv); pv_of_layout L; PBytes r] = Ok (PBytes r').
Proof.
  intros L dv r r' f Hok Hfuel Hdist Hvals Hokr Henc.
  unfold call_fun, call_with. cbn [lookup conv_program String.eqb Ascii.eqb Bool.eqb fn_params fn_body PC_encode_dict bind_params].
  rewrite run_S, exec_if. cbn [eval truthy].
  rewrite exec_block_cons, exec_for. cbn [eval lookup String.eqb Ascii.eqb Bool.eqb iter_items].
  rewrite keys_of_dict. change (pv_of_layout L) with (PDict (pvs_of_layout L)).
  set (ρ0 := [("data_dict", PDict (dict_of_decoded dv)); ("check_dict", PDict (pvs_of_layout L)); ("result", PBytes r)]).
  pose proof (for_consumes T0 (ccall f) (crun f) "key" enc_for_body (enc_inv L dv r')) as FC.
  destruct (FC) with (ds := map (fun kv : string * value => PStr (fst kv)) dv) (ρ := ρ0) as (ρ' & Hrun & Hinv).
  - intros d ds ρ (done & rest & cur & Hdv & Hds & Hdd & Hcd & Hres & Hokc & Hrem).
    destruct rest as [|[k v] rest]; [discriminate|]. cbn [map fst] in Hds. injection Hds as -> ->.
    destruct (enc_entry f L dv r' k v rest done cur ρ Hok Hfuel Hdist Hvals Hdv Hdd Hcd Hres Hokc Hrem)
      as (ρ1 & cur' & Hrun1 & Hdd1 & Hcd1 & Hres1 & Hok1 & Hrem1).
    exists ρ1. split; [exact Hrun1|]. exists (done ++ [(k, v)])%list, rest, cur'. repeat split; try assumption.
    rewrite <- app_assoc. exact Hdv.
  - exists [], dv, r. repeat split; try reflexivity; assumption.
  - unfold enc_for_body in Hrun. cbn [fn_body PC_encode_dict nth] in Hrun. rewrite Hrun.
    destruct Hinv as (done & rest & cur & Hdv & Hds & _ & _ & Hres & _ & Hrem). symmetry in Hds. apply map_eq_nil in Hds. subst rest.
    cbn [encode_dict] in Hrem. injection Hrem as <-.
    rewrite exec_block_cons. cbn [exec exec_simple eval]. rewrite Hres. reflexivity.
Qed.

(* the fuel a well-formed table needs: masks of at most 4096 bits *)
Lemma fuel_bound (L : layout) f : forallb (fun kf => fdesc_py_ok (snd kf)) L = true -> Z.to_nat 4200 <= f ->
  Forall (fun kf => fdesc_fuel (snd kf) <= f) L.
Proof.
  intros Hok Hf. rewrite forallb_forall in Hok. apply Forall_forall. intros [k fd] Hin. specialize (Hok _ Hin). cbn [snd] in *.
  destruct fd as [m o|u o len]; cbn [fdesc_py_ok fdesc_fuel] in *; [|lia].
  apply andb_prop in Hok. destruct Hok as [_ Hsz]. apply N.leb_le in Hsz. lia.
Qed.
