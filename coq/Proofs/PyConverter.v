(* Proofs/PyConverter.v — the four functions of pyscsi/utils/converter.py, REGENERATED into Gen/PyConv.v as programs of the
   small Python (Model/Py.v), compute exactly what the hand-written codec model (Base/Bytes.v, Model/Converter.v) computes:
   for every value, width, byte string, layout and dictionary.  The codec laws (Proofs/Codec.v, Layout.v, RoundTrip.v) are
   theorems about that model; through this file they are theorems about the regenerated source text. *)
From Coq Require Import String ZArith NArith List Bool Lia.
From PS Require Import Base.Bytes Base.Result Model.Converter Model.Py Proofs.FacadeState Proofs.PyLemmas Proofs.Codec Gen.PyConv.
Import ListNotations.
Set Default Timeout 120.
Open Scope string_scope.
Open Scope nat_scope.

Local Arguments ba_to_int : simpl never.
Local Arguments int_to_ba : simpl never.
Local Arguments py_slice : simpl never.
Local Arguments run : simpl never.
Local Arguments call_with : simpl never.
Local Arguments Z.add : simpl never.
Local Arguments Z.mul : simpl never.
Local Arguments Z.sub : simpl never.
Local Arguments Z.of_N : simpl never.
Local Arguments Z.of_nat : simpl never.
Local Arguments Z.shiftr : simpl never.
Local Arguments Z.shiftl : simpl never.
Local Arguments Z.land : simpl never.
Local Arguments Z.ltb : simpl never.
Local Arguments Z.leb : simpl never.
Local Arguments Z.eqb : simpl never.
Local Arguments N.shiftr : simpl never.
Local Arguments N.shiftl : simpl never.
Local Arguments N.land : simpl never.
Local Arguments length : simpl never.
Local Arguments clip : simpl never.
Local Arguments seq : simpl never.
Local Arguments rev : simpl never.

Definition T0 : list (string * layout) := [].
Notation crun f := (run T0 conv_program f).
Notation ccall f := (call_with conv_program (run T0 conv_program f)).

Ltac lk := repeat (rewrite lookup_set_same || rewrite lookup_set_other by (let H := fresh in intro H; discriminate H)).

(* ------------------------------------------------------------------ Z / N bridges (8.16 has no N2Z.inj_shiftr / inj_land) *)
Lemma Z_of_N_shiftr a n : Z.shiftr (Z.of_N a) (Z.of_N n) = Z.of_N (N.shiftr a n).
Proof. rewrite Z.shiftr_div_pow2 by lia. rewrite N.shiftr_div_pow2, N2Z.inj_div, N2Z.inj_pow. reflexivity. Qed.
Lemma Z_of_N_shiftl a n : Z.shiftl (Z.of_N a) (Z.of_N n) = Z.of_N (N.shiftl a n).
Proof. rewrite Z.shiftl_mul_pow2 by lia. rewrite N.shiftl_mul_pow2, N2Z.inj_mul, N2Z.inj_pow. reflexivity. Qed.
Lemma Z_of_N_land a b : Z.land (Z.of_N a) (Z.of_N b) = Z.of_N (N.land a b).
Proof. destruct a, b; reflexivity. Qed.
Lemma Z_of_N_lxor a b : Z.lxor (Z.of_N a) (Z.of_N b) = Z.of_N (N.lxor a b).
Proof. destruct a, b; reflexivity. Qed.

(* ------------------------------------------------------------------ scsi_int_to_ba *)

Lemma byte_of_shift (v : N) (i : nat) :
  Z.to_N (Z.land (Z.shiftr (Z.of_N v) (Z.of_nat i * 8)) 255) = (N.shiftr v (8 * N.of_nat i) mod 256)%N.
Proof.
  replace (Z.of_nat i * 8)%Z with (Z.of_N (8 * N.of_nat i)) by lia.
  rewrite Z_of_N_shiftr. change 255%Z with (Z.of_N 255). rewrite Z_of_N_land, N2Z.id.
  change 255%N with (N.ones 8). rewrite N.land_ones. reflexivity.
Qed.

Lemma byte_of_shift_range (v : N) (i : nat) :
  let z := Z.land (Z.shiftr (Z.of_N v) (Z.of_nat i * 8)) 255 in ((0 <=? z) && (z <? 256))%Z = true.
Proof.
  cbv zeta. replace (Z.of_nat i * 8)%Z with (Z.of_N (8 * N.of_nat i)) by lia.
  rewrite Z_of_N_shiftr. change 255%Z with (Z.of_N 255). rewrite Z_of_N_land.
  change 255%N with (N.ones 8). rewrite N.land_ones.
  change (2 ^ 8)%N with 256%N.
  generalize (N.shiftr v (8 * N.of_nat i)). intros x.
  pose proof (N.mod_lt x 256 ltac:(discriminate)) as H.
  apply andb_true_intro. split; [apply Z.leb_le; apply N2Z.is_nonneg|apply Z.ltb_lt; apply N2Z.inj_lt in H; exact H].
Qed.

(* a comprehension whose element expression evaluates to g(item) for every item *)
Lemma eval_comp call ρ body x it v items (g : pv -> pv) :
  eval call ρ it = Ok v -> iter_items v = Ok items ->
  (forall i, In i items -> eval call (dict_set ρ x i) body = Ok (g i)) ->
  eval call ρ (EComp body x it) = Ok (PList (map g items)).
Proof.
  intros Hit Hitems Hbody. cbn [eval]. rewrite Hit, Hitems. clear Hit Hitems.
  induction items as [|i items IH]; [reflexivity|].
  rewrite (Hbody i (or_introl eq_refl)). cbn [map].
  match goal with |- context [match ?X with Ok ws => Ok (g i :: ws) | Raise e => Raise e end] => set (inner := X) in * end.
  assert (Hin : inner = Ok (map g items)).
  { specialize (IH (fun i0 H0 => Hbody i0 (or_intror H0))). subst inner.
    match type of IH with match ?Y with Ok ws => _ | Raise e => _ end = _ => destruct Y as [ws|e] eqn:E end;
      [injection IH as IH; now rewrite IH | discriminate IH]. }
  rewrite Hin. reflexivity.
Qed.

Lemma itb_bytes (v : N) (l : list nat) :
  bytes_of_pvlist (map (fun i => PInt (Z.land (Z.shiftr (Z.of_N v) (Z.of_nat i * 8)) 255)) l)
  = Ok (map (fun i => (N.shiftr v (8 * N.of_nat i) mod 256)%N) l).
Proof.
  induction l as [|i l IH]; [reflexivity|]. cbn [map bytes_of_pvlist as_int]. rewrite byte_of_shift_range, IH, byte_of_shift. reflexivity.
Qed.

Lemma int_to_ba_rev_seq (v : N) (n : nat) : map (fun i => (N.shiftr v (8 * N.of_nat i) mod 256)%N) (rev (seq 0 n)) = int_to_ba v n.
Proof.
  induction n as [|n IH]; [reflexivity|]. rewrite seq_S, rev_app_distr. cbn [rev app map Nat.add]. change (rev [n]) with [n]. cbn [app map].
  rewrite IH. reflexivity.
Qed.

Theorem py_int_to_ba : forall (v : N) (n : Z) f, (0 <= n <= 65536)%Z -> 1 <= f ->
  call_fun T0 conv_program f "converter.scsi_int_to_ba" [PInt (Z.of_N v); PInt n] = Ok (PBytes (int_to_ba v (Z.to_nat n))).
Proof.
  intros v n f Hn Hf. destruct f as [|f]; [lia|].
  unfold call_fun, call_with. cbn [lookup conv_program String.eqb Ascii.eqb Bool.eqb fn_params fn_body PC_scsi_int_to_ba bind_params].
  rewrite run_S, exec_if. cbn [eval truthy]. rewrite exec_block_cons. cbn [exec exec_simple].
  match goal with |- context [eval ?c ?r (EBytearray ?e)] =>
    assert (E : eval c r e = Ok (PList (map (fun i => match i with PInt z => PInt (Z.land (Z.shiftr (Z.of_N v) (z * 8)) 255) | _ => PNone end)
                                          (map (fun i => PInt (Z.of_nat i)) (rev (seq 0 (Z.to_nat n)))))))
  end.
  { eapply eval_comp.
    - cbn [eval lookup String.eqb Ascii.eqb Bool.eqb range_eval as_int]. destruct (Z.ltb_spec 65536 n); [lia|]. cbn [reversed_eval]. rewrite <- map_rev. reflexivity.
    - reflexivity.
    - intros i Hi. apply in_map_iff in Hi. destruct Hi as (k & <- & _). cbn [eval]. lk.
      cbn [lookup String.eqb Ascii.eqb Bool.eqb bin_eval as_int]. destruct (Z.ltb_spec (Z.of_nat k * 8) 0); [lia|]. reflexivity. }
  cbn [eval]. cbn [eval] in E. rewrite E. rewrite map_map. cbn [bytearray_eval]. rewrite itb_bytes, int_to_ba_rev_seq. reflexivity.
Qed.

(* ------------------------------------------------------------------ scsi_ba_to_int *)

Lemma ba_to_int_cons b r : ba_to_int (b :: r) = (b * 256 ^ N.of_nat (length r) + ba_to_int r)%N.
Proof. reflexivity. Qed.

Lemma sum_pvs_shifted (pre suf : bytes) (acc : Z) :
  sum_pvs (map (fun i => match i with
                         | PInt z => PInt (Z.shiftl (Z.of_N (nth (Z.to_nat z) (pre ++ suf)%list 0%N))
                                                    ((Z.of_nat (length (pre ++ suf)%list) - 1 - z) * 8))
                         | _ => PNone
                         end)
                (map (fun i => PInt (Z.of_nat i)) (seq (length pre) (length suf)))) acc
  = Ok (PInt (acc + Z.of_N (ba_to_int suf))).
Proof.
  revert pre acc. induction suf as [|b suf IH]; intros pre acc.
  - change (seq (length pre) (length (@nil N))) with (@nil nat). cbn [map sum_pvs]. change (ba_to_int []) with 0%N. f_equal. f_equal. lia.
  - change (length (b :: suf)) with (S (length suf)). rewrite <- cons_seq. cbn [map sum_pvs as_int].
    replace (pre ++ b :: suf)%list with ((pre ++ [b]) ++ suf)%list by (rewrite <- app_assoc; reflexivity).
    replace (S (length pre)) with (length (pre ++ [b])%list) by (rewrite app_length; change (length [b]) with 1; lia).
    rewrite (IH (pre ++ [b])%list). f_equal. f_equal.
    rewrite Nat2Z.id. rewrite <- app_assoc. cbn [app]. rewrite app_nth2 by lia. rewrite Nat.sub_diag. cbn [nth].
    rewrite ba_to_int_cons, N2Z.inj_add, N2Z.inj_mul, N2Z.inj_pow.
    rewrite !app_length. change (length (b :: suf)) with (S (length suf)).
    rewrite Z.shiftl_mul_pow2 by lia.
    replace ((Z.of_nat (length pre + S (length suf)) - 1 - Z.of_nat (length pre)) * 8)%Z with (8 * Z.of_nat (length suf))%Z by lia.
    rewrite Z.pow_mul_r by lia. change (2 ^ 8)%Z with 256%Z. change (Z.of_N 256) with 256%Z.
    rewrite nat_N_Z. lia.
Qed.

Theorem py_ba_to_int : forall (b : bytes) f, (Z.of_nat (length b) <= 65536)%Z -> 1 <= f ->
  call_fun T0 conv_program f "converter.scsi_ba_to_int" [PBytes b] = Ok (PInt (Z.of_N (ba_to_int b))).
Proof.
  intros b f Hb Hf. destruct f as [|f]; [lia|].
  unfold call_fun, call_with. cbn [lookup conv_program String.eqb Ascii.eqb Bool.eqb fn_params fn_body PC_scsi_ba_to_int bind_params].
  rewrite run_S, exec_if. cbn [eval truthy]. rewrite exec_block_cons. cbn [exec exec_simple].
  match goal with |- context [eval ?c ?r (ESum ?e)] =>
    assert (E : eval c r e = Ok (PList (map (fun i => match i with
                         | PInt z => PInt (Z.shiftl (Z.of_N (nth (Z.to_nat z) ([] ++ b)%list 0%N))
                                                    ((Z.of_nat (length ([] ++ b)%list) - 1 - z) * 8))
                         | _ => PNone
                         end)
                (map (fun i => PInt (Z.of_nat i)) (seq (length (@nil N)) (length b))))))
  end.
  { eapply eval_comp.
    - cbn [eval lookup String.eqb Ascii.eqb Bool.eqb len_eval range_eval as_int].
      destruct (Z.ltb_spec 65536 (Z.of_nat (length b))); [lia|]. rewrite Nat2Z.id. reflexivity.
    - reflexivity.
    - intros i Hi. apply in_map_iff in Hi. destruct Hi as (k & <- & Hk). apply in_seq in Hk. change (length (@nil N)) with 0 in Hk.
      cbn [eval]. lk. cbn [lookup String.eqb Ascii.eqb Bool.eqb index_eval as_int len_eval bin_eval app].
      unfold norm_index. destruct (Z.leb_spec 0 (Z.of_nat k)); [|lia]. destruct (Z.ltb_spec (Z.of_nat k) (Z.of_nat (length b))); [|lia].
      cbn [andb as_int bin_eval].
      destruct (Z.ltb_spec ((Z.of_nat (length b) - 1 - Z.of_nat k) * 8) 0); [lia|].
      destruct (Z.ltb_spec 1048576 ((Z.of_nat (length b) - 1 - Z.of_nat k) * 8)); [lia|]. reflexivity. }
  cbn [eval]. cbn [eval] in E. rewrite E. cbn [sum_eval]. rewrite sum_pvs_shifted. reflexivity.
Qed.
