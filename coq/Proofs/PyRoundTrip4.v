(* Proofs/PyRoundTrip4.v — TransportIDs of the fixed 24-byte kinds over the REGENERATED bodies (Gen/PyFuncs.v) under Model/Py.v: the builder
   writes the two header fields and the 8-byte port name / SAS address at the standard's position, and the decoder returns exactly the
   dictionary the TransportID was built from (Fibre Channel: N_PORT NAME at bytes 8..15; SAS: SAS ADDRESS at bytes 4..11). *)
From Coq Require Import String ZArith List Bool Lia.
From PS Require Import Base.Bytes Base.Result Model.Converter Model.Py Proofs.FacadeState Proofs.PyLemmas Proofs.PyParsers Proofs.PyBuilders Proofs.PyRoundTrip Proofs.PyRoundTrip2 Proofs.Codec Proofs.Layout Gen.Tables Gen.PyFuncs.
Import ListNotations.
Set Default Timeout 120.
Open Scope string_scope.
Open Scope nat_scope.

Local Arguments py_slice : simpl never.
Local Arguments run : simpl never.
Local Arguments call_with : simpl never.
Local Arguments encode_pv : simpl never.
Local Arguments decode_bits : simpl never.
Local Arguments Z.add : simpl never.
Local Arguments Z.of_nat : simpl never.
Local Arguments Z.eqb : simpl never.
Local Arguments length : simpl never.
Local Arguments app : simpl never.
Local Arguments zeros : simpl never.
Local Arguments store_slice : simpl never.
Local Arguments firstn : simpl never.
Local Arguments skipn : simpl never.

Ltac lk := repeat (rewrite lookup_set_same || rewrite lookup_set_other by (let H := fresh in intro H; discriminate H)).
Ltac step := rewrite exec_block_cons; cbn [exec exec_simple eval eval_list eval_opt]; lk.
Ltac ifs := rewrite exec_block_cons, exec_if; cbn [eval]; lk; cbn [cmp_eval py_eq as_int].

Notation T_tid := PyBuilders.T_tid.

Lemma tid_wf24 : wf_layout 24 T_tid = true.
Proof. vm_compute. reflexivity. Qed.

Lemma py_slice_to8 (name : bytes) : length name = 8 -> py_slice name None (Some 8%Z) = name.
Proof.
  intros H. unfold py_slice, clip. change (Z.ltb 8 0) with false. cbv iota. rewrite H. change (Z.to_nat (Z.min 8 (Z.of_nat 8))) with 8.
  change (skipn 0 name) with name. change (8 - 0) with 8. apply firstn_all2. lia.
Qed.

Lemma store_mid (r x : bytes) (a b : Z) : (0 <= a <= b)%Z -> (b <= Z.of_nat (length r))%Z ->
  store_slice (PBytes r) (Some (PInt a)) (Some (PInt b)) (PBytes x) = Ok (PBytes (firstn (Z.to_nat a) r ++ x ++ skipn (Z.to_nat b) r)%list).
Proof.
  intros Hab Hb. unfold store_slice. cbn [opt_int as_int]. unfold clip.
  destruct (Z.ltb_spec a 0); [lia|]. destruct (Z.ltb_spec b 0); [lia|].
  replace (Z.to_nat (Z.min a (Z.of_nat (length r)))) with (Z.to_nat a) by lia.
  replace (Z.to_nat (Z.min b (Z.of_nat (length r)))) with (Z.to_nat b) by lia.
  replace (Nat.max (Z.to_nat a) (Z.to_nat b)) with (Z.to_nat b) by lia. reflexivity.
Qed.

(* the dictionary a caller hands in: the two table fields and the name under its key *)
Definition tid_dict (p : N) (key : string) (name : bytes) : pv :=
  PDict [("tpid_format", PInt 0); ("protocol_id", PInt (Z.of_N p)); (key, PBytes name)].
Definition tid_dv (p : N) : list (string * value) := [("tpid_format", VI 0); ("protocol_id", VI p)].

Lemma tid_enc (p : N) : (p < 16)%N -> exists enc, encode_dict (tid_dv p) T_tid (zeros 24) = Ok enc /\ length enc = 24 /\
  decode_bits enc T_tid = Ok (tid_dv p).
Proof.
  intros Hp.
  assert (Hvd : valid_dict 24 T_tid (tid_dv p) = true).
  { unfold valid_dict. apply andb_true_intro. split; [reflexivity|]. cbn [forallb tid_dv]. unfold val_okb. cbn [fst snd].
    change (lookup "tpid_format" T_tid) with (Some (Mask 192 0)). change (lookup "protocol_id" T_tid) with (Some (Mask 15 0)).
    vm_compute geom_of. cbn [vint g_w]. change (0 <? 2 ^ 2)%N with true. cbn [andb]. rewrite andb_true_r. apply N.ltb_lt. change (2 ^ 4)%N with 16%N. exact Hp. }
  destruct (valid_dict_parts _ _ _ Hvd) as (_ & Hvals).
  destruct (encode_dict_bits 24 T_tid (tid_dv p) (zeros 24) (zeros_length 24) (bytes_ok_zeros 24) Hvals) as (enc & He & Hl & _).
  exists enc. repeat split; try assumption. exact (decode_bits_of_encoded 24 T_tid (tid_dv p) enc tid_wf24 Hvd eq_refl He).
Qed.

(* Fibre Channel (protocol identifier 0) *)
Theorem transport_id_fc_build : forall (name enc : bytes) f, length name = 8 -> 1 <= f ->
  encode_dict (tid_dv 0) T_tid (zeros 24) = Ok enc -> length enc = 24 ->
  call_fun all_tables py_program f MTI [tid_dict 0 "n_port_name" name] = Ok (PBytes (firstn 8 enc ++ name ++ skipn 16 enc)%list).
Proof.
  intros name enc f Hn Hf Henc Hl. destruct f as [|f]; [lia|].
  unfold call_fun, call_with, tid_dict. rewrite mti_lookup. cbn [fn_params bind_params PF_mti].
  rewrite run_S, exec_if. cbn [eval truthy]. cbn [fn_body PF_mti].
  step. cbn [lookup String.eqb Ascii.eqb Bool.eqb index_eval].
  ifs. change (Z.eqb (Z.of_N 0) 5) with false. cbn [negb truthy].
  step. cbn [bytearray_eval as_int]. change (Z.ltb 24 0) with false. change (Z.ltb 1048576 24) with false. cbn iota. change (Z.to_nat 24) with 24.
  step. cbn [lookup String.eqb Ascii.eqb Bool.eqb]. rewrite tid_table. unfold with_var. lk.
  change [("tpid_format", PInt 0); ("protocol_id", PInt (Z.of_N 0)); ("n_port_name", PBytes name)]
    with (dict_of_decoded (tid_dv 0) ++ [("n_port_name", PBytes name)])%list.
  rewrite encode_pv_app_unknown by (vm_compute; reflexivity). rewrite encode_pv_of_decoded, Henc. rewrite exec_block_nil.
  ifs. change (Z.eqb (Z.of_N 0) 0) with true. cbn [truthy].
  step. cbn [lookup String.eqb Ascii.eqb Bool.eqb index_eval]. change (lookup "n_port_name" (dict_of_decoded (tid_dv 0) ++ [("n_port_name", PBytes name)])%list) with (Some (PBytes name)).
  cbn [slice_eval opt_int as_int]. rewrite (py_slice_to8 name Hn).
  unfold with_var. lk. rewrite (store_mid enc name 8 16) by (rewrite ?Hl; lia). change (Z.to_nat 8) with 8. change (Z.to_nat 16) with 16. rewrite exec_block_nil.
  step. lk. reflexivity.
Qed.

Theorem transport_id_fc_round_trip : forall (name : bytes) f, length name = 8 -> 1 <= f ->
  exists built, call_fun all_tables py_program f MTI [tid_dict 0 "n_port_name" name] = Ok (PBytes built) /\ length built = 24 /\
    tid_decodes built (tid_dict 0 "n_port_name" name).
Proof.
  intros name f Hn Hf. destruct (tid_enc 0 ltac:(lia)) as (enc & Henc & Hl & Hdec).
  exists (firstn 8 enc ++ name ++ skipn 16 enc)%list. split; [exact (transport_id_fc_build name enc f Hn Hf Henc Hl)|].
  assert (Hlen : length (firstn 8 enc ++ name ++ skipn 16 enc)%list = 24) by (rewrite !app_length, firstn_length, skipn_length, Hl, Hn; reflexivity).
  split; [exact Hlen|].
  assert (Hf8 : length (firstn 8 enc) = 8) by (rewrite firstn_length, Hl; reflexivity).
  assert (Hfields : tid_fields (firstn 8 enc ++ name ++ skipn 16 enc)%list = dict_of_decoded (tid_dv 0)).
  { unfold tid_fields. rewrite decode_total_prefix by (rewrite Hf8; vm_compute; reflexivity).
    rewrite <- (decode_total_prefix (firstn 8 enc) (skipn 8 enc)) by (rewrite Hf8; vm_compute; reflexivity).
    rewrite firstn_skipn. unfold decode_total. unfold PyParsers.T_tid. unfold PyBuilders.T_tid in Hdec. now rewrite Hdec. }
  pose proof (tid_decodes_fc _ Hlen) as Hd. rewrite Hfields in Hd. specialize (Hd eq_refl).
  rewrite skipn_app, Hf8 in Hd. assert (Hz : skipn 8 (firstn 8 enc) = []) by (apply skipn_all2; lia). rewrite Hz in Hd. change (8 - 8) with 0 in Hd. rewrite skipn_O in Hd.
  change (@nil N ++ name ++ skipn 16 enc)%list with (name ++ skipn 16 enc)%list in Hd.
  rewrite firstn_app, Hn, Nat.sub_diag, firstn_O, app_nil_r in Hd. assert (Hz2 : firstn 8 name = name) by (apply firstn_all2; lia). rewrite Hz2 in Hd.
  exact Hd.
Qed.

(* SAS (protocol identifier 6) *)
Theorem transport_id_sas_build : forall (name enc : bytes) f, length name = 8 -> 1 <= f ->
  encode_dict (tid_dv 6) T_tid (zeros 24) = Ok enc -> length enc = 24 ->
  call_fun all_tables py_program f MTI [tid_dict 6 "sas_address" name] = Ok (PBytes (firstn 4 enc ++ name ++ skipn 12 enc)%list).
Proof.
  intros name enc f Hn Hf Henc Hl. destruct f as [|f]; [lia|].
  unfold call_fun, call_with, tid_dict. rewrite mti_lookup. cbn [fn_params bind_params PF_mti].
  rewrite run_S, exec_if. cbn [eval truthy]. cbn [fn_body PF_mti].
  step. cbn [lookup String.eqb Ascii.eqb Bool.eqb index_eval].
  ifs. change (Z.eqb (Z.of_N 6) 5) with false. cbn [negb truthy].
  step. cbn [bytearray_eval as_int]. change (Z.ltb 24 0) with false. change (Z.ltb 1048576 24) with false. cbn iota. change (Z.to_nat 24) with 24.
  step. cbn [lookup String.eqb Ascii.eqb Bool.eqb]. rewrite tid_table. unfold with_var. lk.
  change [("tpid_format", PInt 0); ("protocol_id", PInt (Z.of_N 6)); ("sas_address", PBytes name)]
    with (dict_of_decoded (tid_dv 6) ++ [("sas_address", PBytes name)])%list.
  rewrite encode_pv_app_unknown by (vm_compute; reflexivity). rewrite encode_pv_of_decoded, Henc. rewrite exec_block_nil.
  ifs. change (Z.eqb (Z.of_N 6) 0) with false. cbn [truthy].
  ifs. change (Z.eqb (Z.of_N 6) 3) with false. cbn [truthy].
  ifs. change (Z.eqb (Z.of_N 6) 4) with false. cbn [truthy].
  ifs. change (Z.eqb (Z.of_N 6) 5) with false. cbn [truthy].
  ifs. change (Z.eqb (Z.of_N 6) 6) with true. cbn [truthy].
  step. cbn [lookup String.eqb Ascii.eqb Bool.eqb index_eval]. change (lookup "sas_address" (dict_of_decoded (tid_dv 6) ++ [("sas_address", PBytes name)])%list) with (Some (PBytes name)).
  cbn [slice_eval opt_int as_int]. rewrite (py_slice_to8 name Hn).
  unfold with_var. lk. rewrite (store_mid enc name 4 12) by (rewrite ?Hl; lia). change (Z.to_nat 4) with 4. change (Z.to_nat 12) with 12. rewrite !exec_block_nil.
  step. lk. reflexivity.
Qed.

Theorem transport_id_sas_round_trip : forall (name : bytes) f, length name = 8 -> 1 <= f ->
  exists built, call_fun all_tables py_program f MTI [tid_dict 6 "sas_address" name] = Ok (PBytes built) /\ length built = 24 /\
    tid_decodes built (tid_dict 6 "sas_address" name).
Proof.
  intros name f Hn Hf. destruct (tid_enc 6 ltac:(lia)) as (enc & Henc & Hl & Hdec).
  exists (firstn 4 enc ++ name ++ skipn 12 enc)%list. split; [exact (transport_id_sas_build name enc f Hn Hf Henc Hl)|].
  assert (Hlen : length (firstn 4 enc ++ name ++ skipn 12 enc)%list = 24) by (rewrite !app_length, firstn_length, skipn_length, Hl, Hn; reflexivity).
  split; [exact Hlen|].
  assert (Hf4 : length (firstn 4 enc) = 4) by (rewrite firstn_length, Hl; reflexivity).
  assert (Hfields : tid_fields (firstn 4 enc ++ name ++ skipn 12 enc)%list = dict_of_decoded (tid_dv 6)).
  { unfold tid_fields. rewrite decode_total_prefix by (rewrite Hf4; vm_compute; reflexivity).
    rewrite <- (decode_total_prefix (firstn 4 enc) (skipn 4 enc)) by (rewrite Hf4; vm_compute; reflexivity).
    rewrite firstn_skipn. unfold decode_total. unfold PyParsers.T_tid. unfold PyBuilders.T_tid in Hdec. now rewrite Hdec. }
  pose proof (tid_decodes_sas _ Hlen) as Hd. rewrite Hfields in Hd. specialize (Hd eq_refl).
  rewrite skipn_app, Hf4 in Hd. assert (Hz : skipn 4 (firstn 4 enc) = []) by (apply skipn_all2; lia). rewrite Hz in Hd. change (4 - 4) with 0 in Hd. rewrite skipn_O in Hd.
  change (@nil N ++ name ++ skipn 12 enc)%list with (name ++ skipn 12 enc)%list in Hd.
  rewrite firstn_app, Hn, Nat.sub_diag, firstn_O, app_nil_r in Hd. assert (Hz2 : firstn 8 name = name) by (apply firstn_all2; lia). rewrite Hz2 in Hd.
  exact Hd.
Qed.
