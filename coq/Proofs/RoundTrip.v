(* Proofs/RoundTrip.v — read-modify-write: replacing one value in a dictionary changes only that field's bits
   of the encoded buffer; and the round trip of a fixed-stride descriptor list. *)
From Coq Require Import String Lia.
From PS Require Import Base.Bytes Base.Result Model.Converter Model.Parser Proofs.Codec Proofs.Layout Proofs.ParserProps Proofs.BuilderProps.
Set Default Timeout 60.
Open Scope string_scope.
Open Scope N_scope.

(* d[k] = v'   for a key that is present *)
Fixpoint set_val (d : list (string * value)) (k : string) (v' : value) : list (string * value) :=
  match d with
  | [] => []
  | (k1, v1) :: d' => if String.eqb k1 k then (k1, v') :: set_val d' k v' else (k1, v1) :: set_val d' k v'
  end.

Lemma set_val_keys d k v' : map fst (set_val d k v') = map fst d.
Proof. induction d as [|[k1 v1] d IH]; [reflexivity|]. cbn [set_val]. destruct (String.eqb k1 k); cbn [map fst]; now rewrite IH. Qed.

Lemma apply_writes_set n L d k v' f g : lookup k L = Some f -> geom_of n f = Some g ->
  forall old j, in_field g j = false ->
  apply_writes n L (set_val d k v') old j = apply_writes n L d old j.
Proof.
  intros Hl Hg. induction d as [|[k1 v1] d IH]; intros old j Hj; [reflexivity|].
  cbn [set_val]. destruct (String.eqb_spec k1 k) as [->|Hne]; cbn [apply_writes].
  - assert (W : forall v, write1 n L (k, v) old j = old).
    { intros v. unfold write1. cbn [fst snd]. rewrite Hl, Hg. destruct (vint f v); [now rewrite Hj|reflexivity]. }
    rewrite !W. now apply IH.
  - now apply IH.
Qed.

(* read-modify-write: after decoding, changing the value of one key and encoding again, every bit outside that
   key's field is what it was *)
Theorem rmw_only_that_field n L d k v' f g :
  wf_layout n L = true -> valid_dict n L d = true -> valid_dict n L (set_val d k v') = true ->
  lookup k L = Some f -> geom_of n f = Some g ->
  exists r1 r2, encode_dict d L (zeros n) = Ok r1 /\ encode_dict (set_val d k v') L (zeros n) = Ok r2 /\
    length r1 = n /\ length r2 = n /\
    forall j, in_field g j = false -> N.testbit (ba_to_int r2) j = N.testbit (ba_to_int r1) j.
Proof.
  intros Hwf Hvd Hvd' Hl Hg.
  destruct (valid_dict_parts _ _ _ Hvd) as (_ & Hvals). destruct (valid_dict_parts _ _ _ Hvd') as (_ & Hvals').
  destruct (encode_dict_bits n L d (zeros n) (zeros_length n) (bytes_ok_zeros n) Hvals) as (r1 & E1 & L1 & _ & B1).
  destruct (encode_dict_bits n L (set_val d k v') (zeros n) (zeros_length n) (bytes_ok_zeros n) Hvals') as (r2 & E2 & L2 & _ & B2).
  exists r1, r2. repeat split; try assumption.
  intros j Hj. rewrite B1, B2. now apply (apply_writes_set n L d k v' f g Hl Hg).
Qed.

(* a fixed-stride list: header with its length field stored as len - c, then the descriptors; decoding it with a
   decoder whose list ends at (length field + c) returns the descriptors *)
Theorem list_round_trip p c (descs : list bytes) :
  (0 < lp_stride p)%nat -> (lp_len_a p <= lp_len_b p <= lp_start p)%nat -> c = lp_bias p -> (c <= lp_start p)%nat ->
  Forall (fun d => length d = lp_stride p) descs ->
  N.of_nat (lp_start p + lp_stride p * length descs - c) < 256 ^ N.of_nat (lp_len_b p - lp_len_a p) ->
  parse_list p (store_len (zeros (lp_start p) ++ concat descs)%list (lp_len_a p) (lp_len_b p) c) = Some descs.
Proof.
  intros Hs Hab Hc Hcs Hd Hfit. subst c.
  assert (Hcl : length (concat descs) = (lp_stride p * length descs)%nat).
  { clear -Hd. induction Hd as [|d ds Hd _ IH]; [cbn; lia|]. cbn [concat length]. rewrite app_length, IH, Hd. lia. }
  set (r := (zeros (lp_start p) ++ concat descs)%list).
  assert (Hr : length r = (lp_start p + lp_stride p * length descs)%nat) by (unfold r; rewrite app_length, zeros_length; lia).
  (* the stored buffer is  header' ++ concat descs  with header' of lp_start bytes *)
  set (hdr := (firstn (lp_len_a p) (zeros (lp_start p)) ++ int_to_ba (N.of_nat (length r - lp_bias p)) (lp_len_b p - lp_len_a p)
               ++ skipn (lp_len_b p) (zeros (lp_start p)))%list).
  assert (Hsplit : store_len r (lp_len_a p) (lp_len_b p) (lp_bias p) = (hdr ++ concat descs ++ [])%list).
  { unfold store_len, hdr, r. rewrite app_nil_r.
    rewrite firstn_app, zeros_length. replace (lp_len_a p - lp_start p)%nat with 0%nat by lia. cbn [firstn]. rewrite app_nil_r.
    rewrite skipn_app, zeros_length. replace (lp_len_b p - lp_start p)%nat with 0%nat by lia. cbn [skipn].
    rewrite !app_length, zeros_length. now rewrite <- !app_assoc. }
  rewrite Hsplit.
  assert (Hh : length hdr = lp_start p).
  { unfold hdr. rewrite !app_length, firstn_length, int_to_ba_length, skipn_length, zeros_length. lia. }
  apply parse_list_exact; try assumption; try lia.
  (* the length field of hdr reads len r - bias *)
  assert (Hf : slice hdr (lp_len_a p) (lp_len_b p) = int_to_ba (N.of_nat (length r - lp_bias p)) (lp_len_b p - lp_len_a p)).
  { unfold hdr, slice. rewrite skipn_app, skipn_all2 by (rewrite firstn_length, zeros_length; lia).
    rewrite firstn_length, zeros_length. replace (lp_len_a p - Nat.min (lp_len_a p) (lp_start p))%nat with 0%nat by lia.
    cbn [skipn app]. rewrite firstn_app, int_to_ba_length, Nat.sub_diag. cbn [firstn]. rewrite app_nil_r.
    rewrite <- (int_to_ba_length (N.of_nat (length r - lp_bias p)) (lp_len_b p - lp_len_a p)) at 1. apply firstn_all. }
  rewrite Hf, ba_to_int_to_ba, N.mod_small by (rewrite Hr; exact Hfit). rewrite Hr. lia.
Qed.
