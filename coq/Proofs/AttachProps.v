(* Proofs/AttachProps.v — attach selects the command set of the peripheral device type. *)
From Coq Require Import String.
From PS Require Import Base.Bytes Base.Result Model.Converter Model.Ctor Model.Facade Model.Attach Model.CorrUtil.
From PS Require Import Gen.Tables Gen.Opcodes Gen.FacadeTbl Spec.SAM Proofs.Opcodes.
Open Scope string_scope.
Open Scope N_scope.

Definition set_names : list string := map fst command_sets.

Definition primary_ok (s : string) : bool :=
  match lookup s command_sets with
  | None => false
  | Some tbl => forallb (fun pc : string * N => match lookup (fst pc) tbl with
                                                | Some (_, v, _) => v =? snd pc | None => false end) primary_commands
  end.

Definition map_ok : bool :=
  forallb (fun t => forallb (fun cur =>
     let s := select t cur in
     primary_ok s && match cmdset_of_type t with Some want => String.eqb s want | None => true end)
     set_names) (below 32).

Lemma map_sound : map_ok = true -> forall t cur, t < 32 -> In cur set_names ->
  primary_ok (select t cur) = true /\
  forall want, cmdset_of_type t = Some want -> select t cur = want.
Proof.
  unfold map_ok. intros H t cur Ht Hc. rewrite forallb_forall in H. specialize (H t (below_In 32 t Ht)).
  rewrite forallb_forall in H. specialize (H cur Hc). apply andb_prop in H as [A B]. split; [assumption|].
  intros want Hw. rewrite Hw in B. now apply String.eqb_eq.
Qed.

Lemma land31_lt b : N.land b 31 < 32.
Proof. change 31 with (N.ones 5). rewrite N.land_ones. apply N.mod_lt. discriminate. Qed.

(* the device object attached last carries the set of ITS type, whatever happened before; other devices keep theirs *)
Lemma nth_set_nth_same {A} (l : list A) i x d : (i < length l)%nat -> nth i (set_nth l i x) d = x.
Proof. revert i; induction l as [|y l IH]; intros [|i] H; cbn in *; try lia; [reflexivity|apply IH; lia]. Qed.
Lemma nth_set_nth_other {A} (l : list A) i j x d : i <> j -> nth j (set_nth l i x) d = nth j l d.
Proof. revert i j; induction l as [|y l IH]; intros [|i] [|j] H; cbn; try reflexivity; try congruence. apply IH. congruence. Qed.
