(* Proofs/Opcodes.v — decidable comparison of the regenerated opcode tables with the T10 tables,
   and its lifting to quantified statements. *)
From Coq Require Import String Ascii.
From PS Require Import Base.Bytes Base.Result Model.Converter Model.CorrUtil Model.Command.
From PS Require Import Spec.SAM Spec.T10Opcodes Gen.Opcodes Gen.Misc Model.InitCdb.
Open Scope string_scope.
Open Scope N_scope.

(* library-invented names  XXX_OPCODE_HH : the value must be the hexadecimal suffix *)
Definition hexval (c : ascii) : option N :=
  let n := N_of_ascii c in
  if (48 <=? n) && (n <=? 57) then Some (n - 48)
  else if (65 <=? n) && (n <=? 70) then Some (n - 55)
  else None.

Definition invented_value (name : string) : option N :=
  let len := String.length name in
  if (len <? 13)%nat then None else
  if String.eqb (String.substring (len - 10) 8 name) "_OPCODE_" then
    match String.get (len - 2) name, String.get (len - 1) name with
    | Some a, Some b => match hexval a, hexval b with Some x, Some y => Some (x * 16 + y) | _, _ => None end
    | _, _ => None
    end
  else None.

Definition t10_value (name : string) : option N :=
  match invented_value name with Some v => Some v | None => lookup name t10_opcodes end.

Definition optN_eqb := option_eqb N.eqb.

Definition sa_ok (sa : string * N) : bool := optN_eqb (lookup (fst sa) t10_service_actions) (Some (snd sa)).

Definition entry_ok (e : opentry) : bool :=
  let '(name, (oname, v, sas)) := e in
  optN_eqb (t10_value name) (Some v) && forallb sa_ok sas.

Definition values_ok : bool := forallb (fun S => forallb entry_ok (snd S)) command_sets.

Definition sn_eqb (a b : string * N) : bool := String.eqb (fst a) (fst b) && (snd a =? snd b).

(* the same name has the same value and the same service-action table in every set listing it *)
Definition consistent_with (tbl : list opentry) (e : opentry) : bool :=
  let '(name, (_, v, sas)) := e in
  match lookup name tbl with
  | None => true
  | Some (_, v', sas') => (v =? v') && list_eqb sn_eqb sas sas'
  end.
Definition consistent_ok : bool :=
  forallb (fun S => forallb (fun S' => forallb (consistent_with (snd S')) (snd S)) command_sets) command_sets.

(* commands that T10 defines with service actions expose (at least) those service actions *)
Definition required_ok : bool :=
  forallb (fun S => forallb (fun e : opentry =>
     let '(name, (_, _, sas)) := e in
     match lookup name required_service_actions with
     | None => true
     | Some req => forallb (fun r : string * N => optN_eqb (lookup (fst r) sas) (Some (snd r))) req
     end) (snd S)) command_sets.

Definition status_ok : bool :=
  forallb (fun e : string * N =>
    memb_s (fst e) pseudo_status || optN_eqb (lookup (fst e) sam_status) (Some (snd e))) E_SCSI_STATUS
  && forallb (fun e : string * N => optN_eqb (lookup (fst e) E_SCSI_STATUS) (Some (snd e))) sam_status.

Definition len_eqb (a : result nat) (b : option nat) : bool :=
  match a, b with
  | Ok n, Some m => Nat.eqb n m
  | Raise OpcodeException, None => true
  | _, _ => false
  end.


Definition below (n : nat) : list N := map N.of_nat (seq 0 n).
Definition len_ok : bool := forallb (fun v => len_eqb (init_cdb v) (cdb_len_of_opcode v)) (below 256).

Definition no_unknown_opcodes : bool :=
  match unknown_opcode_entries, unknown_misc with [], [] => true | _, _ => false end.

Definition entries_checked : nat := fold_right (fun S acc => (length (snd S) + acc)%nat) 0%nat command_sets.

(* ---------- lifting ---------- *)

Lemma optN_eqb_eq a b : optN_eqb a b = true -> a = b.
Proof.
  destruct a, b; cbn; intros H; try discriminate; [|reflexivity].
  apply N.eqb_eq in H. now subst.
Qed.

Lemma below_In n v : v < N.of_nat n -> In v (below n).
Proof.
  intros H. unfold below. apply in_map_iff. exists (N.to_nat v). split; [lia|].
  apply in_seq. lia.
Qed.

Lemma values_sound : values_ok = true ->
  forall S tbl name oname v sas, In (S, tbl) command_sets -> In (name, (oname, v, sas)) tbl ->
    t10_value name = Some v /\ forall sa x, In (sa, x) sas -> lookup sa t10_service_actions = Some x.
Proof.
  unfold values_ok. intros H S tbl name oname v sas HS He.
  rewrite forallb_forall in H. specialize (H _ HS). cbn [snd] in H.
  rewrite forallb_forall in H. specialize (H _ He). cbn [entry_ok] in H.
  apply andb_prop in H as [H1 H2]. split; [now apply optN_eqb_eq|].
  intros sa x Hsa. rewrite forallb_forall in H2. specialize (H2 _ Hsa). now apply optN_eqb_eq in H2.
Qed.

Lemma list_eqb_sn a b : list_eqb sn_eqb a b = true -> a = b.
Proof.
  revert b; induction a as [|[k v] a IH]; intros [|[k' v'] b]; cbn; intros H; try discriminate; [reflexivity|].
  apply andb_prop in H as [H1 H2]. unfold sn_eqb in H1. cbn in H1. apply andb_prop in H1 as [A B].
  apply String.eqb_eq in A. apply N.eqb_eq in B. subst. f_equal. auto.
Qed.

Lemma consistent_sound : consistent_ok = true ->
  forall S tbl S' tbl' name oname v sas oname' v' sas',
    In (S, tbl) command_sets -> In (S', tbl') command_sets ->
    In (name, (oname, v, sas)) tbl -> lookup name tbl' = Some (oname', v', sas') ->
    v = v' /\ sas = sas'.
Proof.
  unfold consistent_ok. intros H S tbl S' tbl' name oname v sas oname' v' sas' HS HS' He Hl.
  rewrite forallb_forall in H. specialize (H _ HS).
  rewrite forallb_forall in H. specialize (H _ HS'). cbn [snd] in H.
  rewrite forallb_forall in H. specialize (H _ He). cbn [consistent_with] in H.
  rewrite Hl in H. apply andb_prop in H as [A B]. apply N.eqb_eq in A. split; [assumption|now apply list_eqb_sn].
Qed.

Lemma len_sound : len_ok = true -> forall v, v < 256 ->
  match cdb_len_of_opcode v with
  | Some n => init_cdb v = Ok n
  | None => init_cdb v = Raise OpcodeException
  end.
Proof.
  unfold len_ok. intros H v Hv. rewrite forallb_forall in H.
  specialize (H v (below_In 256 v Hv)). unfold len_eqb in H.
  destruct (init_cdb v) as [n|e]; destruct (cdb_len_of_opcode v) as [m|]; try discriminate;
    try (destruct e; discriminate).
  - apply Nat.eqb_eq in H. now subst.
  - destruct e; try discriminate; reflexivity.
Qed.

Lemma status_sound : status_ok = true ->
  (forall name v, In (name, v) E_SCSI_STATUS -> In name pseudo_status \/ lookup name sam_status = Some v) /\
  (forall name v, In (name, v) sam_status -> lookup name E_SCSI_STATUS = Some v).
Proof.
  unfold status_ok. intros H. apply andb_prop in H as [A B]. split.
  - intros name v Hin. rewrite forallb_forall in A. specialize (A _ Hin). cbn [fst snd] in A.
    apply orb_prop in A as [A|A]; [left; now apply memb_s_In|right; now apply optN_eqb_eq].
  - intros name v Hin. rewrite forallb_forall in B. specialize (B _ Hin). now apply optN_eqb_eq in B.
Qed.
