(* Proofs/Termination.v — a loop  `while len(v): ...; v = v[stride:]`  whose stride is at least 1 runs at most
   len(v) iterations, whatever the bytes are and whatever else the body computes. *)
From Coq Require Import String.
From PS Require Import Base.Bytes Base.Result Model.Loops.
Set Default Timeout 60.

Lemma skipn_shrinks {A} (k : nat) (d : list A) : d <> [] -> (1 <= k)%nat -> (length (skipn k d) < length d)%nat.
Proof. intros Hd Hk. rewrite skipn_length. destruct d; [congruence|]. cbn [length]. lia. Qed.

Theorem stride_sound s e (d : bytes) : stride_ok s = true -> d <> [] ->
  (length (skipn (N.to_nat (stride_value s e)) d) < length d)%nat.
Proof.
  intros Hs Hd. apply skipn_shrinks; [assumption|].
  destruct s; cbn [stride_ok stride_value] in *; try discriminate.
  - apply N.leb_le in Hs. lia.
  - apply N.leb_le in Hs. lia.
  - lia.
Qed.

Section Term.
  Variable A : Type.
  Variable body : bytes -> A -> bytes * A.
  Hypothesis shrinks : forall d a, d <> [] -> (length (fst (body d a)) < length d)%nat.

  Theorem loop_terminates : forall fuel d a, (length d <= fuel)%nat ->
    exists r n, loop A body fuel d a = Some (r, n) /\ (n <= length d)%nat.
  Proof.
    induction fuel as [|f IH]; intros d a Hf.
    - destruct d; [|cbn in Hf; lia]. exists a, 0%nat. cbn. auto.
    - destruct d as [|x d']; [exists a, 0%nat; cbn; auto|].
      cbn [loop]. pose proof (shrinks (x :: d') a ltac:(discriminate)) as Hs.
      destruct (body (x :: d') a) as [d1 a1]. cbn [fst] in Hs.
      destruct (IH d1 a1 ltac:(cbn [length] in *; lia)) as (r & n & E & Hn). rewrite E.
      exists r, (S n). split; [reflexivity|]. cbn [length] in *. lia.
  Qed.
End Term.

(* a decoder loop described by a skeleton: the body consumes stride_value s (e d a) bytes and updates its accumulator *)
Definition skeleton_body {A} (s : stride) (e : bytes -> A -> N) (upd : bytes -> A -> A) (d : bytes) (a : A) : bytes * A :=
  (skipn (N.to_nat (stride_value s (e d a))) d, upd d a).

Theorem skeleton_terminates {A} (s : stride) (e : bytes -> A -> N) (upd : bytes -> A -> A) :
  stride_ok s = true -> forall d a,
  exists r n, loop A (skeleton_body s e upd) (length d) d a = Some (r, n) /\ (n <= length d)%nat.
Proof.
  intros Hs d a. apply loop_terminates; [|lia].
  intros d0 a0 Hd. unfold skeleton_body. cbn [fst]. now apply stride_sound.
Qed.
