(* Proofs/PyParsersRES.v — exactness of the REGENERATED body of ReadElementStatus.unmarshall_datain (Gen/PyFuncs.v) under the
   semantics of Model/Py.v: element status pages of element descriptors, optional volume tags, element-type specific fields. *)
From Coq Require Import String ZArith List Bool Lia.
From PS Require Import Base.Bytes Base.Result Model.Converter Model.Py Proofs.FacadeState Proofs.PyLemmas Proofs.PyParsers Gen.Tables Gen.PyFuncs.
Import ListNotations.
Set Default Timeout 900.
Open Scope string_scope.
Open Scope nat_scope.

Local Arguments ba_to_int : simpl never.
Local Arguments py_slice : simpl never.
Local Arguments decode_bits : simpl never.
Local Arguments decode_total : simpl never.
Local Arguments dict_update : simpl never.
Local Arguments dict_of_decoded : simpl never.
Local Arguments run : simpl never.
Local Arguments call_with : simpl never.
Local Arguments Z.add : simpl never.
Local Arguments Z.of_N : simpl never.
Local Arguments Z.of_nat : simpl never.
Local Arguments Z.eqb : simpl never.
Local Arguments length : simpl never.
Local Arguments app : simpl never.
Local Arguments concat : simpl never.
Local Arguments map : simpl never.
Local Arguments clip : simpl never.

(* ---------------------------------------------------------------- READ ELEMENT STATUS (pages of descriptors, optional volume tags,
   element-type specific fields) *)
Definition RES := "scsi_cdb_readelementstatus.ReadElementStatus.unmarshall_datain".
Notation PF_res := PF_scsi_cdb_readelementstatus_ReadElementStatus_unmarshall_datain.
Definition T_res_hdr := T_scsi_cdb_readelementstatus__ReadElementStatus___datain_bits.
Definition T_res_page := T_scsi_cdb_readelementstatus__ReadElementStatus___element_status_page_bits.
Definition T_res_elem := T_scsi_cdb_readelementstatus__ReadElementStatus___element_status_descriptor_bits.
Definition T_res_dt := T_scsi_cdb_readelementstatus__ReadElementStatus___data_transfer_descriptor_bits.
Definition T_res_st := T_scsi_cdb_readelementstatus__ReadElementStatus___storage_descriptor_bits.
Definition T_res_ie := T_scsi_cdb_readelementstatus__ReadElementStatus___import_export_descriptor_bits.

Lemma res_lookup : lookup RES py_program = Some PF_res.
Proof. vm_compute. reflexivity. Qed.
Lemma res_tables :
  lookup "scsi_cdb_readelementstatus.ReadElementStatus._datain_bits" all_tables = Some T_res_hdr /\
  lookup "scsi_cdb_readelementstatus.ReadElementStatus._element_status_page_bits" all_tables = Some T_res_page /\
  lookup "scsi_cdb_readelementstatus.ReadElementStatus._element_status_descriptor_bits" all_tables = Some T_res_elem /\
  lookup "scsi_cdb_readelementstatus.ReadElementStatus._data_transfer_descriptor_bits" all_tables = Some T_res_dt /\
  lookup "scsi_cdb_readelementstatus.ReadElementStatus._storage_descriptor_bits" all_tables = Some T_res_st /\
  lookup "scsi_cdb_readelementstatus.ReadElementStatus._import_export_descriptor_bits" all_tables = Some T_res_ie.
Proof. vm_compute. repeat split; reflexivity. Qed.
Lemma res_wf :
  masks_nonzero T_res_hdr = true /\ fields_within 8 T_res_hdr = true /\ names_distinct (map fst T_res_hdr) = true /\
  masks_nonzero T_res_page = true /\ fields_within 8 T_res_page = true /\ names_distinct (map fst T_res_page) = true /\
  existsb (String.eqb "element_descriptors") (map fst T_res_page) = false /\
  masks_nonzero T_res_elem = true /\ fields_within 12 T_res_elem = true /\
  masks_nonzero T_res_dt = true /\ fields_within 12 T_res_dt = true /\
  masks_nonzero T_res_st = true /\ fields_within 12 T_res_st = true /\
  masks_nonzero T_res_ie = true /\ fields_within 12 T_res_ie = true.
Proof. vm_compute. repeat split; reflexivity. Qed.

(* the flags of an element status page *)
Record pflags := mkPF { pf_pv : bool; pf_av : bool; pf_ty : Z }.
Definition b2z (b : bool) : Z := if b then 1%Z else 0%Z.

(* what the decoder reports for one element descriptor d of a page with these flags: the common fields, the volume tags at
   bytes 12-47 / next 36 bytes when the page announces them, the fields of the element type *)
Definition elem_dict (F : pflags) (d : bytes) : pv :=
  let r0 := dict_update [] (dict_of_decoded (decode_total d T_res_elem)) in
  let r1 := if pf_pv F then dict_update r0 [("primary_volume_tag", PBytes (firstn 36 (skipn 12 d)))] else r0 in
  let r2 := if pf_av F then dict_update r1 [("alternate_volume_tag", PBytes (firstn 36 (skipn (if pf_pv F then 48 else 12) d)))] else r1 in
  let r3 := if Z.eqb (pf_ty F) 4 then dict_update r2 (dict_of_decoded (decode_total d T_res_dt)) else r2 in
  let r4 := if Z.eqb (pf_ty F) 2 then dict_update r3 (dict_of_decoded (decode_total d T_res_st)) else r3 in
  let r5 := if Z.eqb (pf_ty F) 3 then dict_update r4 (dict_of_decoded (decode_total d T_res_ie)) else r4 in
  PDict r5.

Notation res_outer_body := (while_body PF_res 5).
Definition res_inner_loop : st := nth 6 res_outer_body SPass.
Definition res_inner_cond : ex := match res_inner_loop with SWhile c _ => c | _ => EConst PNone end.
Definition res_inner_body : list st := match res_inner_loop with SWhile _ b => b | _ => [] end.

Definition res_inner (F : pflags) (pf : list (string * pv)) (E : nat) (descs : list bytes) (frame : env) (ds : list bytes) (ρ : env) : Prop :=
  exists done, descs = (done ++ ds)%list /\ Forall (fun d => length d = E) ds /\
    lookup "_d" ρ = Some (PBytes (concat ds)) /\
    lookup "_ed" ρ = Some (PList (map (elem_dict F) done)) /\
    lookup "_r" ρ = Some (PDict pf) /\ lookup "_edl" ρ = Some (PInt (Z.of_nat E)) /\
    (forall x, In x ["data"; "_esd"; "result"; "_bc"] -> lookup x ρ = lookup x frame).

Ltac ifstep := rewrite exec_block_cons, exec_if; cbn [eval index_eval]; lk.

Lemma res_inner_iter F pf E descs frame call again d ds ρ :
  lookup "pvoltag" pf = Some (PInt (b2z (pf_pv F))) -> lookup "avoltag" pf = Some (PInt (b2z (pf_av F))) ->
  lookup "element_type" pf = Some (PInt (pf_ty F)) ->
  12 + (if pf_pv F then 36 else 0) + (if pf_av F then 36 else 0) <= E ->
  res_inner F pf E descs frame (d :: ds) ρ ->
  exists ρ', exec_block all_tables call again res_inner_body ρ = ONorm ρ' /\ res_inner F pf E descs frame ds ρ'.
Proof.
  intros Hpv Hav Hty HE (done & Hsplit & Hall & Hd & Hed & Hr & Hedl & Hframe).
  pose proof (Forall_inv Hall) as Hlen. pose proof (Forall_inv_tail Hall) as Hall'. cbn beta in Hlen.
  destruct res_tables as (_ & _ & Te & Tdt & Tst & Tie).
  destruct res_wf as (_ & _ & _ & _ & _ & _ & _ & We1 & We2 & Wd1 & Wd2 & Ws1 & Ws2 & Wi1 & Wi2).
  cbn [res_inner_body res_inner_loop while_body fn_body nth PF_res].
  change (concat (d :: ds)) with (d ++ concat ds)%list in Hd.
  step. step. rewrite Hd, Te. rewrite decode_bits_total by exact We1. rewrite decode_total_prefix by (apply (fields_within_mono 12); [rewrite Hlen; destruct (pf_pv F), (pf_av F); lia|exact We2]).
  unfold with_var. lk.
  step. rewrite Hd. cbn [slice_eval opt_int as_int]. rewrite py_slice_from_within by (destruct (pf_pv F), (pf_av F); lia). change (Z.to_nat 12) with 12.
  assert (Hsk : length (skipn 12 d) = E - 12) by (rewrite skipn_length, Hlen; reflexivity).
  destruct F as [pv av ty]. cbn [pf_pv pf_av pf_ty b2z] in *.
  destruct pv, av;
  (* PVOLTAG *)
  ifstep; rewrite Hr; cbn [index_eval]; rewrite Hpv; cbn [truthy b2z];
  (change (Z.eqb 1 0) with false || change (Z.eqb 0 0) with true); cbn [negb];
  first [ rewrite exec_block_nil
        | step; cbn [slice_eval opt_int as_int]; rewrite py_slice_from0, py_slice_firstn by (rewrite Hsk; lia);
          change (Z.to_nat 36) with 36; unfold with_var; lk; cbn [update_at];
          step; cbn [slice_eval opt_int as_int]; rewrite py_slice_from_within by (rewrite Hsk; lia); change (Z.to_nat 36) with 36;
          rewrite skipn_skipn'; change (12 + 36) with 48; rewrite exec_block_nil ];
  (* AVOLTAG *)
  ifstep; rewrite Hr; cbn [index_eval]; rewrite Hav; cbn [truthy b2z];
  (change (Z.eqb 1 0) with false || change (Z.eqb 0 0) with true); cbn [negb];
  first [ rewrite exec_block_nil
        | step; cbn [slice_eval opt_int as_int]; rewrite py_slice_from0, py_slice_firstn by (rewrite ?Hsk, ?skipn_length, ?Hlen; lia);
          change (Z.to_nat 36) with 36; unfold with_var; lk; cbn [update_at];
          step; cbn [slice_eval opt_int as_int]; rewrite py_slice_from_within by (rewrite ?Hsk, ?skipn_length, ?Hlen; lia); change (Z.to_nat 36) with 36;
          rewrite skipn_skipn'; rewrite exec_block_nil ];
  (* element type 4 / 2 / 3 *)
  ifstep; rewrite Hr; cbn [index_eval]; rewrite Hty; cbn [cmp_eval py_eq as_int]; destruct (Z.eqb ty 4) eqn:E4; cbn [truthy];
  first [ rewrite exec_block_nil
        | step; rewrite Hd, Tdt; rewrite decode_bits_total by exact Wd1;
          rewrite decode_total_prefix by (apply (fields_within_mono 12); [rewrite Hlen; lia|exact Wd2]); unfold with_var; lk; rewrite exec_block_nil ];
  ifstep; rewrite Hr; cbn [index_eval]; rewrite Hty; cbn [cmp_eval py_eq as_int]; destruct (Z.eqb ty 2) eqn:E2; cbn [truthy];
  first [ rewrite exec_block_nil
        | step; rewrite Hd, Tst; rewrite decode_bits_total by exact Ws1;
          rewrite decode_total_prefix by (apply (fields_within_mono 12); [rewrite Hlen; lia|exact Ws2]); unfold with_var; lk; rewrite exec_block_nil ];
  ifstep; rewrite Hr; cbn [index_eval]; rewrite Hty; cbn [cmp_eval py_eq as_int]; destruct (Z.eqb ty 3) eqn:E3; cbn [truthy];
  first [ rewrite exec_block_nil
        | step; rewrite Hd, Tie; rewrite decode_bits_total by exact Wi1;
          rewrite decode_total_prefix by (apply (fields_within_mono 12); [rewrite Hlen; lia|exact Wi2]); unfold with_var; lk; rewrite exec_block_nil ];
  (* append, advance *)
  step; unfold with_var; lk; rewrite Hed; cbn [update_at];
  step; rewrite Hedl, Hd; cbn [slice_eval opt_int as_int]; rewrite py_slice_suffix by (rewrite Hlen; reflexivity);
  rewrite exec_block_nil; (eexists; split; [reflexivity|]);
  exists (done ++ [d])%list; (repeat split; lk; try assumption);
  first [ reflexivity
        | rewrite Hsplit, <- app_assoc; reflexivity
        | rewrite map_app; do 3 f_equal;
          match goal with |- _ = map ?g [d] => transitivity [g d]; [|reflexivity] end;
          f_equal; unfold elem_dict; cbn [pf_pv pf_av pf_ty]; rewrite E4, E2, E3; reflexivity
        | intros x Hx; cbn [In] in Hx; repeat (destruct Hx as [<-|Hx]; [lk; apply Hframe; cbn [In]; tauto|]); contradiction
        | match goal with |- ?G => idtac "STUCK" G end; fail ].
Qed.

