(* Proofs/PyLemmas.v — reasoning about programs of the small Python (Model/Py.v): unfolding of `run`, a general
   induction principle for `while` loops that consume a list of items, slices of concatenations, total decoding. *)
From Coq Require Import String ZArith List Bool Lia.
From PS Require Import Base.Bytes Base.Result Model.Converter Model.Py Proofs.FacadeState.
Import ListNotations.
Set Default Timeout 60.
Open Scope string_scope.
Open Scope nat_scope.

(* ------------------------------------------------------------------ run / exec *)

Lemma run_S T P f s ρ : run T P (S f) s ρ = exec T (call_with P (run T P f)) (run T P f) s ρ.
Proof. reflexivity. Qed.

Lemma exec_if T call again c a b ρ :
  exec T call again (SIf c a b) ρ =
  match eval call ρ c with
  | Raise x => OExn x
  | Ok v => exec_block T call again (if truthy v then a else b) ρ
  end.
Proof. reflexivity. Qed.

Lemma exec_while T call again c body ρ :
  exec T call again (SWhile c body) ρ =
  match eval call ρ c with
  | Raise x => OExn x
  | Ok v => if truthy v then match exec_block T call again body ρ with
                             | ONorm ρ' => again (SWhile c body) ρ'
                             | o => o
                             end
            else ONorm ρ
  end.
Proof. reflexivity. Qed.

Fixpoint for_iter T call again (x : string) (body : list st) (items : list pv) (ρ : env) : outcome :=
  match items with
  | [] => ONorm ρ
  | i :: rest => match exec_block T call again body (dict_set ρ x i) with
                 | ONorm ρ' => for_iter T call again x body rest ρ'
                 | o => o
                 end
  end.

Lemma exec_for T call again x e body ρ :
  exec T call again (SFor x e body) ρ =
  match eval call ρ e with
  | Raise x => OExn x
  | Ok v => match iter_items v with
            | Raise x => OExn x
            | Ok items => for_iter T call again x body items ρ
            end
  end.
Proof.
  cbn [exec]. destruct (eval call ρ e) as [v|]; [|reflexivity]. destruct (iter_items v) as [items|]; [|reflexivity].
  revert ρ. induction items as [|i rest IH]; intros ρ; [reflexivity|].
  cbn [for_iter]. change (exec_block T call again body (dict_set ρ x i)) with
    ((fix block (l : list st) (ρ0 : env) {struct l} : outcome :=
        match l with
        | [] => ONorm ρ0
        | s' :: r => match exec T call again s' ρ0 with ONorm ρ' => block r ρ' | o => o end
        end) body (dict_set ρ x i)).
  destruct ((fix block (l : list st) (ρ0 : env) {struct l} : outcome :=
        match l with
        | [] => ONorm ρ0
        | s' :: r => match exec T call again s' ρ0 with ONorm ρ' => block r ρ' | o => o end
        end) body (dict_set ρ x i)); try reflexivity. apply IH.
Qed.

Lemma exec_block_cons T call again s r ρ :
  exec_block T call again (s :: r) ρ = match exec T call again s ρ with ONorm ρ' => exec_block T call again r ρ' | o => o end.
Proof. reflexivity. Qed.

Lemma exec_block_nil T call again ρ : exec_block T call again [] ρ = ONorm ρ.
Proof. reflexivity. Qed.

(* ------------------------------------------------------------------ loops that consume a list of items *)

Section While.
  Variables (T : list (string * layout)) (P : program) (c : ex) (body : list st).
  Variable D : Type.
  Variable Inv : list D -> env -> Prop.
  Variable m : nat.
  Hypothesis cond_ok : forall f ds ρ, Inv ds ρ ->
    exists v, eval (call_with P (run T P f)) ρ c = Ok v /\ truthy v = match ds with [] => false | _ => true end.
  Hypothesis iter_ok : forall f d ds ρ, m <= f -> Inv (d :: ds) ρ ->
    exists ρ', exec_block T (call_with P (run T P f)) (run T P f) body ρ = ONorm ρ' /\ Inv ds ρ'.

  Lemma while_consumes : forall ds f ρ, m + length ds <= f -> Inv ds ρ ->
    exists ρ', run T P (S f) (SWhile c body) ρ = ONorm ρ' /\ Inv [] ρ'.
  Proof.
    induction ds as [|d ds IH]; intros f ρ Hf HI.
    - rewrite run_S, exec_while. destruct (cond_ok f _ _ HI) as (v & -> & ->). eauto.
    - rewrite run_S, exec_while. destruct (cond_ok f _ _ HI) as (v & -> & ->).
      cbn [length] in Hf. destruct (iter_ok f d ds ρ ltac:(lia) HI) as (ρ' & -> & HI').
      destruct f as [|f']; [lia|]. apply IH; [lia|exact HI'].
  Qed.
End While.

(* the same for `for` loops over a list value *)
Section For.
  Variables (T : list (string * layout)) (call : string -> list pv -> result pv) (again : st -> env -> outcome).
  Variables (x : string) (body : list st).
  Variable Inv : list pv -> env -> Prop.
  Hypothesis iter_ok : forall d ds ρ, Inv (d :: ds) ρ ->
    exists ρ', exec_block T call again body (dict_set ρ x d) = ONorm ρ' /\ Inv ds ρ'.
  Lemma for_consumes : forall ds ρ, Inv ds ρ -> exists ρ', for_iter T call again x body ds ρ = ONorm ρ' /\ Inv [] ρ'.
  Proof.
    induction ds as [|d ds IH]; intros ρ HI; cbn [for_iter]; [eauto|].
    destruct (iter_ok d ds ρ HI) as (ρ' & -> & HI'). auto.
  Qed.
End For.

(* ------------------------------------------------------------------ slices of concatenations *)

Lemma clip_in len (i : Z) : (0 <= i <= Z.of_nat len)%Z -> clip len i = Z.to_nat i.
Proof. intros H. unfold clip. destruct (Z.ltb_spec i 0); [lia|]. rewrite Z.min_l by lia. reflexivity. Qed.

Lemma clip_over len (i : Z) : (Z.of_nat len <= i)%Z -> clip len i = len.
Proof. intros H. unfold clip. destruct (Z.ltb_spec i 0); [lia|]. rewrite Z.min_r by lia. apply Nat2Z.id. Qed.

Lemma py_slice_prefix {A} (a b : list A) (n : Z) : Z.of_nat (length a) = n -> py_slice (a ++ b) None (Some n) = a.
Proof.
  intros H. unfold py_slice. rewrite clip_in by (rewrite app_length; lia). cbn [skipn]. rewrite Nat.sub_0_r.
  replace (Z.to_nat n) with (length a) by lia. rewrite firstn_app, Nat.sub_diag, firstn_all. cbn. apply app_nil_r.
Qed.

Lemma py_slice_suffix {A} (a b : list A) (n : Z) : Z.of_nat (length a) = n -> py_slice (a ++ b) (Some n) None = b.
Proof.
  intros H. unfold py_slice. rewrite clip_in by (rewrite app_length; lia).
  replace (Z.to_nat n) with (length a + 0)%nat by lia. rewrite skipn_app. now rewrite Nat.add_0_r, skipn_all, Nat.sub_diag.
Qed.

Lemma py_slice_mid {A} (a b c : list A) (n k : Z) :
  Z.of_nat (length a) = n -> Z.of_nat (length a + length b) = k -> py_slice (a ++ b ++ c) (Some n) (Some k) = b.
Proof.
  intros Hn Hk. unfold py_slice. rewrite !clip_in by (rewrite !app_length; lia).
  replace (Z.to_nat n) with (length a) by lia. replace (Z.to_nat k - length a)%nat with (length b) by lia.
  rewrite skipn_app, skipn_all, Nat.sub_diag. cbn [skipn app]. rewrite firstn_app, Nat.sub_diag, firstn_all. cbn. apply app_nil_r.
Qed.

(* the upper bound may also lie beyond the end: python clips it *)
Lemma py_slice_mid_over {A} (a b : list A) (n k : Z) :
  Z.of_nat (length a) = n -> (Z.of_nat (length a + length b) <= k)%Z -> py_slice (a ++ b) (Some n) (Some k) = b.
Proof.
  intros Hn Hk. unfold py_slice. rewrite (clip_in _ n) by (rewrite !app_length; lia). rewrite (clip_over _ k) by (rewrite !app_length; lia).
  replace (Z.to_nat n) with (length a) by lia. rewrite app_length. replace (length a + length b - length a)%nat with (length b) by lia.
  rewrite skipn_app, skipn_all, Nat.sub_diag. cbn [skipn app]. apply firstn_all.
Qed.

Lemma py_slice_firstn {A} (a b : list A) (n : Z) : (0 <= n <= Z.of_nat (length a))%Z ->
  py_slice (a ++ b) None (Some n) = firstn (Z.to_nat n) a.
Proof.
  intros H. unfold py_slice. rewrite clip_in by (rewrite app_length; lia). cbn [skipn]. rewrite Nat.sub_0_r.
  rewrite firstn_app. replace (Z.to_nat n - length a) with 0 by lia. cbn [firstn]. apply app_nil_r.
Qed.

Lemma py_slice_tail_of_prefix {A} (a b : list A) (n k : Z) : Z.of_nat (length a) = k -> (0 <= n <= k)%Z ->
  py_slice (a ++ b) (Some n) (Some k) = skipn (Z.to_nat n) a.
Proof.
  intros Hk Hn. unfold py_slice. rewrite !clip_in by (rewrite app_length; lia).
  rewrite skipn_app. replace (Z.to_nat n - length a) with 0 by lia. cbn [skipn].
  rewrite firstn_app, skipn_length. replace (Z.to_nat k - Z.to_nat n - (length a - Z.to_nat n)) with 0 by lia.
  cbn [firstn]. rewrite app_nil_r. apply firstn_all2. rewrite skipn_length. lia.
Qed.

Lemma py_slice_from0 {A} (l : list A) (k : option Z) : py_slice l (Some 0%Z) k = py_slice l None k.
Proof. unfold py_slice. rewrite clip_in by lia. reflexivity. Qed.

(* ------------------------------------------------------------------ decoding with a well-formed table never fails *)

Definition decode_total (data : bytes) (L : layout) : list (string * value) :=
  match decode_bits data L with Ok d => d | Raise _ => [] end.

Definition masks_nonzero (L : layout) : bool :=
  forallb (fun kf => match snd kf with Mask 0 _ => false | _ => true end) L.

Lemma decode_bits_total data L : masks_nonzero L = true -> decode_bits data L = Ok (decode_total data L).
Proof.
  unfold decode_total. induction L as [|[k f] L IH]; cbn [masks_nonzero forallb decode_bits snd]; [reflexivity|].
  intros H. apply andb_prop in H. destruct H as [H1 H2]. specialize (IH H2).
  destruct f as [mk off|u off len]; cbn [decode1].
  - destruct mk as [|p]; [discriminate|]. cbn [ctz]. now rewrite IH.
  - now rewrite IH.
Qed.

(* the dictionary a decode into an EMPTY dictionary leaves, when the table's names are distinct *)
Fixpoint names_distinct (L : list string) : bool :=
  match L with [] => true | k :: r => negb (existsb (String.eqb k) r) && names_distinct r end.

Lemma dict_set_fresh {A} (l : list (string * A)) k v : lookup k l = None -> dict_set l k v = (l ++ [(k, v)])%list.
Proof. induction l as [|[k' v'] l IH]; cbn; [reflexivity|]. destruct (String.eqb_spec k k'); [discriminate|]. intros H. now rewrite IH. Qed.

Lemma lookup_app_none {A} (l r : list (string * A)) k : lookup k l = None -> lookup k (l ++ r)%list = lookup k r.
Proof. induction l as [|[k' v'] l IH]; cbn; [reflexivity|]. destruct (String.eqb k k'); [discriminate|exact IH]. Qed.

Lemma lookup_not_in {A} (l : list (string * A)) k : existsb (String.eqb k) (map fst l) = false -> lookup k l = None.
Proof. induction l as [|[k' v'] l IH]; cbn; [reflexivity|]. intros H. apply orb_false_iff in H. destruct H as [-> H]. auto. Qed.

Lemma dict_update_distinct {A} (acc new : list (string * A)) :
  names_distinct (map fst new) = true -> (forall k, In k (map fst new) -> lookup k acc = None) ->
  dict_update acc new = (acc ++ new)%list.
Proof.
  unfold dict_update. revert acc. induction new as [|[k v] new IH]; intros acc Hd Hn; cbn [fold_left map fst names_distinct] in *; [now rewrite app_nil_r|].
  apply andb_prop in Hd. destruct Hd as [Hk Hd]. cbn [fst snd]. rewrite dict_set_fresh by (apply Hn; now left).
  rewrite IH; [now rewrite <- app_assoc|exact Hd|].
  intros k' Hin. rewrite lookup_app_none by (apply Hn; now right). cbn.
  destruct (String.eqb_spec k' k) as [->|]; [|reflexivity].
  apply negb_true_iff in Hk. exfalso. clear -Hk Hin. induction (map fst new) as [|x l IHl]; [contradiction|].
  cbn in Hk. apply orb_false_iff in Hk. destruct Hk as [H1 H2]. destruct Hin as [->|Hin]; [now rewrite String.eqb_refl in H1|auto].
Qed.

Lemma dict_update_nil {A} (new : list (string * A)) : names_distinct (map fst new) = true -> dict_update [] new = new.
Proof. intros H. rewrite dict_update_distinct; [reflexivity|exact H|reflexivity]. Qed.

Lemma decode_total_names data L : masks_nonzero L = true -> map fst (decode_total data L) = map fst L.
Proof.
  induction L as [|[k f] L IH]; cbn [masks_nonzero forallb snd map fst]; [reflexivity|].
  intros H. apply andb_prop in H. destruct H as [H1 H2]. specialize (IH H2).
  unfold decode_total. cbn [decode_bits].
  assert (E : exists v, decode1 data f = Ok v).
  { destruct f as [mk off|u off len]; cbn [decode1]; [|eauto]. destruct mk as [|p]; [discriminate|]. cbn [ctz]. eauto. }
  destruct E as [v ->]. rewrite (decode_bits_total data L H2). cbn [map fst]. now rewrite IH.
Qed.

(* ------------------------------------------------------------------ decoding a descriptor at the head of a longer buffer *)

Definition field_within (n : nat) (f : fdesc) : bool :=
  match f with
  | Mask m o => N.to_nat o + nbytes m <=? n
  | Blob u o len => N.to_nat (o + len * u) <=? n
  end.
Definition fields_within (n : nat) (L : layout) : bool := forallb (fun kf => field_within n (snd kf)) L.

Lemma slice_app_within (a b : bytes) o e : e <= length a -> slice (a ++ b)%list o e = slice a o e.
Proof.
  intros He. unfold slice. destruct (Nat.le_gt_cases o (length a)) as [Ho|Ho].
  - rewrite skipn_app. replace (o - length a) with 0 by lia. cbn [skipn]. rewrite firstn_app, skipn_length.
    replace (e - o - (length a - o)) with 0 by lia. cbn [firstn]. apply app_nil_r.
  - replace (e - o) with 0 by lia. reflexivity.
Qed.

Lemma decode_bits_prefix (a b : bytes) L : fields_within (length a) L = true -> decode_bits (a ++ b)%list L = decode_bits a L.
Proof.
  induction L as [|[k f] L IH]; cbn [fields_within forallb snd decode_bits]; [reflexivity|].
  intros H. apply andb_prop in H. destruct H as [H1 H2]. rewrite (IH H2).
  replace (decode1 (a ++ b)%list f) with (decode1 a f); [reflexivity|].
  destruct f as [mk off|u off len]; cbn [decode1 field_within] in *; apply Nat.leb_le in H1.
  - destruct (ctz mk); [|reflexivity]. now rewrite slice_app_within by lia.
  - now rewrite slice_app_within by lia.
Qed.

Lemma decode_total_prefix (a b : bytes) L : fields_within (length a) L = true -> decode_total (a ++ b)%list L = decode_total a L.
Proof. intros H. unfold decode_total. now rewrite decode_bits_prefix. Qed.

Lemma concat_len4 (ps : list bytes) : Forall (fun p => length p = 4) ps -> length (concat ps) = 4 * length ps.
Proof.
  induction 1 as [|p ps Hp _ IH]; [reflexivity|]. cbn [concat length]. rewrite app_length, Hp, IH. lia.
Qed.

Lemma firstn_len {A} (l : list A) n : length l = n -> firstn n l = l.
Proof. intros <-. apply firstn_all. Qed.

Lemma lookup_app_some {A} (l r : list (string * A)) k v : lookup k l = Some v -> lookup k (l ++ r)%list = Some v.
Proof. induction l as [|[k' v'] l IH]; cbn; [discriminate|]. destruct (String.eqb k k'); [trivial|exact IH]. Qed.

Lemma lookup_remove_other (l : list (string * pv)) k k' : k <> k' -> lookup k (dict_remove l k') = lookup k l.
Proof.
  intros Hn. induction l as [|[k2 v2] l IH]; cbn; [reflexivity|].
  destruct (String.eqb_spec k' k2) as [->|Hn2]; cbn.
  - destruct (String.eqb_spec k k2); [contradiction|reflexivity].
  - destruct (String.eqb_spec k k2); [reflexivity|exact IH].
Qed.
Lemma remove_names_subset (l : list (string * pv)) k k' : existsb (String.eqb k) (map fst l) = false ->
  existsb (String.eqb k) (map fst (dict_remove l k')) = false.
Proof.
  induction l as [|[k2 v2] l IH]; cbn; [reflexivity|]. intros H. apply orb_false_iff in H. destruct H as [H1 H2].
  destruct (String.eqb k' k2); cbn; [exact H2|]. rewrite H1. cbn. auto.
Qed.

Lemma py_slice_from_within {A} (a b : list A) (n : Z) : (0 <= n <= Z.of_nat (length a))%Z ->
  py_slice (a ++ b) (Some n) None = (skipn (Z.to_nat n) a ++ b)%list.
Proof.
  intros H. unfold py_slice. rewrite clip_in by (rewrite app_length; lia). rewrite skipn_app.
  replace (Z.to_nat n - length a) with 0 by lia. reflexivity.
Qed.

Lemma fields_within_mono n m L : n <= m -> fields_within n L = true -> fields_within m L = true.
Proof.
  intros Hnm. unfold fields_within. rewrite !forallb_forall. intros H x Hx. specialize (H x Hx).
  destruct (snd x) as [mk off|u off len]; cbn [field_within] in *; apply Nat.leb_le in H; apply Nat.leb_le; lia.
Qed.

Lemma py_slice_inside {A} (a b : list A) (n k : Z) : (0 <= n <= k)%Z -> (k <= Z.of_nat (length a))%Z ->
  py_slice (a ++ b) (Some n) (Some k) = firstn (Z.to_nat k - Z.to_nat n) (skipn (Z.to_nat n) a).
Proof.
  intros Hn Hk. unfold py_slice. rewrite !clip_in by (rewrite app_length; lia).
  rewrite skipn_app. replace (Z.to_nat n - length a) with 0 by lia. cbn [skipn].
  rewrite firstn_app, skipn_length. replace (Z.to_nat k - Z.to_nat n - (length a - Z.to_nat n)) with 0 by lia.
  cbn [firstn]. apply app_nil_r.
Qed.

Lemma concat_len_ge (ds : list bytes) (E : nat) : 0 < E -> Forall (fun d => length d = E) ds -> length ds <= length (concat ds).
Proof. intros HE H. induction H as [|d ds Hl _ IH]; [reflexivity|]. cbn [concat length]. rewrite app_length, Hl. lia. Qed.
