(* Proofs/PyRoundTrip5.v — the remaining fixed 24-byte TransportID kinds over the REGENERATED bodies: SBP (IEEE 1394, EUI-64 NAME at bytes
   8..15), SRP (RDMA, INITIATOR PORT IDENTIFIER at bytes 8..23) and SOP (PCI Express, ROUTING ID at bytes 4..11): decoder exact, builder
   exact, and the decoder returns the dictionary the TransportID was built from. *)
From Coq Require Import String ZArith List Bool Lia.
From PS Require Import Base.Bytes Base.Result Model.Converter Model.Py Proofs.FacadeState Proofs.PyLemmas Proofs.PyParsers Proofs.PyBuilders Proofs.PyRoundTrip Proofs.PyRoundTrip2 Proofs.PyRoundTrip4 Proofs.PyTotal Proofs.Codec Proofs.Layout Gen.Tables Gen.PyFuncs.
Import ListNotations.
Set Default Timeout 120.
Open Scope string_scope.
Open Scope nat_scope.

Local Arguments py_slice : simpl never.
Local Arguments run : simpl never.
Local Arguments call_with : simpl never.
Local Arguments encode_pv : simpl never.
Local Arguments decode_bits : simpl never.
Local Arguments decode_total : simpl never.
Local Arguments dict_update : simpl never.
Local Arguments dict_of_decoded : simpl never.
Local Arguments Z.add : simpl never.
Local Arguments Z.of_nat : simpl never.
Local Arguments Z.eqb : simpl never.
Local Arguments length : simpl never.
Local Arguments app : simpl never.
Local Arguments zeros : simpl never.
Local Arguments store_slice : simpl never.
Local Arguments firstn : simpl never.
Local Arguments skipn : simpl never.

Ltac lk := repeat (rewrite lookup_set_same || rewrite lookup_set_other by (let H := fresh in intro H; discriminate H)).
Ltac step := rewrite exec_block_cons; cbn [exec exec_simple eval eval_list eval_opt]; lk.
Notation T_tid := PyBuilders.T_tid.

(* one `if _protocol_id == k` of the decoder / builder with the protocol identifier p known *)
Ltac branch p := rewrite exec_block_cons, exec_if; cbn [eval lookup String.eqb Ascii.eqb Bool.eqb cmp_eval py_eq as_int]; lk; cbn [cmp_eval py_eq as_int];
  match goal with |- context [Z.eqb p ?k] => let b := eval vm_compute in (Z.eqb p k) in change (Z.eqb p k) with b end; cbn [truthy].

(* ---------------------------------------------------------------- decoders *)
Lemma py_slice_field (tid rest : bytes) (a n : nat) : a + n <= length tid ->
  py_slice (tid ++ rest)%list (Some (Z.of_nat a)) (Some (Z.of_nat (a + n))) = firstn n (skipn a tid).
Proof.
  intros H. unfold py_slice. rewrite !clip_in by (rewrite app_length; lia). rewrite !Nat2Z.id.
  replace (a + n - a) with n by lia. rewrite skipn_app, firstn_app, skipn_length.
  replace (n - (length tid - a)) with 0 by lia. rewrite firstn_O. now rewrite app_nil_r.
Qed.

Ltac decoder_prologue Hl Hp :=
  unfold call_with; rewrite utid_lookup; cbn [fn_params bind_params PF_utid];
  match goal with |- context [run _ _ ?f] => destruct f as [|?f]; [lia|] end; rewrite run_S, exec_if; cbn [eval truthy]; cbn [fn_body PF_utid];
  cstep; cstep; rewrite utid_table; rewrite decode_bits_total by apply utid_wf; rewrite decode_total_prefix by (rewrite Hl; apply utid_wf);
  match goal with |- context [dict_of_decoded (decode_total ?t PyParsers.T_tid)] => fold (tid_fields t) end;
  rewrite dict_update_nil by (rewrite tid_fields_names; apply utid_wf);
  cstep; rewrite Hp.

Lemma tid_decodes_sbp (tid : bytes) : length tid = 24 -> lookup "protocol_id" (tid_fields tid) = Some (PInt 3) ->
  tid_decodes tid (PDict (tid_fields tid ++ [("eui64_name", PBytes (firstn 8 (skipn 8 tid)))])%list).
Proof.
  intros Hl Hp rest f Hf. decoder_prologue Hl Hp.
  do 2 branch 3%Z.
  cstep. rewrite (dict_set_fresh (tid_fields tid)) by (apply lookup_not_in; rewrite tid_fields_names; apply utid_wf).
  rewrite !exec_block_nil. cstep.
  rewrite (py_slice_field tid rest 8 8 ltac:(lia) : py_slice (tid ++ rest)%list (Some 8%Z) (Some 16%Z) = _). reflexivity.
Qed.

Lemma tid_decodes_srp (tid : bytes) : length tid = 24 -> lookup "protocol_id" (tid_fields tid) = Some (PInt 4) ->
  tid_decodes tid (PDict (tid_fields tid ++ [("initiator_port_identifier", PBytes (firstn 16 (skipn 8 tid)))])%list).
Proof.
  intros Hl Hp rest f Hf. decoder_prologue Hl Hp.
  do 3 branch 4%Z.
  cstep. rewrite (dict_set_fresh (tid_fields tid)) by (apply lookup_not_in; rewrite tid_fields_names; apply utid_wf).
  rewrite !exec_block_nil. cstep.
  rewrite (py_slice_field tid rest 8 16 ltac:(lia) : py_slice (tid ++ rest)%list (Some 8%Z) (Some 24%Z) = _). reflexivity.
Qed.

Lemma tid_decodes_sop (tid : bytes) : length tid = 24 -> lookup "protocol_id" (tid_fields tid) = Some (PInt 10) ->
  tid_decodes tid (PDict (tid_fields tid ++ [("routing_id", PBytes (firstn 8 (skipn 4 tid)))])%list).
Proof.
  intros Hl Hp rest f Hf. decoder_prologue Hl Hp.
  do 6 branch 10%Z.
  cstep. rewrite (dict_set_fresh (tid_fields tid)) by (apply lookup_not_in; rewrite tid_fields_names; apply utid_wf).
  rewrite !exec_block_nil. cstep.
  rewrite (py_slice_field tid rest 4 8 ltac:(lia) : py_slice (tid ++ rest)%list (Some 4%Z) (Some 12%Z) = _). reflexivity.
Qed.

(* ---------------------------------------------------------------- builders *)
Lemma py_slice_toN (name : bytes) (n : nat) : length name = n -> py_slice name None (Some (Z.of_nat n)) = name.
Proof. intros H. rewrite py_slice_to. apply firstn_all2. lia. Qed.

Ltac builder_pre p key name Henc :=
  unfold call_fun, call_with, tid_dict; rewrite mti_lookup; cbn [fn_params bind_params PF_mti];
  rewrite run_S, exec_if; cbn [eval truthy]; cbn [fn_body PF_mti];
  step; cbn [lookup String.eqb Ascii.eqb Bool.eqb index_eval];
  rewrite exec_block_cons, exec_if; cbn [eval]; lk; cbn [cmp_eval py_eq as_int];
  match goal with |- context [Z.eqb (Z.of_N p) 5] => let bb := eval vm_compute in (Z.eqb (Z.of_N p) 5) in change (Z.eqb (Z.of_N p) 5) with bb end; cbn [negb truthy];
  step; cbn [bytearray_eval as_int]; change (Z.ltb 24 0) with false; change (Z.ltb 1048576 24) with false; cbn iota; change (Z.to_nat 24) with 24;
  step; cbn [lookup String.eqb Ascii.eqb Bool.eqb]; rewrite tid_table; unfold with_var; lk;
  change [("tpid_format", PInt 0); ("protocol_id", PInt (Z.of_N p)); (key, PBytes name)]
    with (dict_of_decoded (tid_dv p) ++ [(key, PBytes name)])%list;
  rewrite encode_pv_app_unknown by (vm_compute; reflexivity); rewrite encode_pv_of_decoded, Henc; rewrite exec_block_nil.
Ltac bbranch p :=
  rewrite exec_block_cons, exec_if; cbn [eval]; lk; cbn [cmp_eval py_eq as_int];
  match goal with |- context [Z.eqb (Z.of_N p) ?k] => let bb := eval vm_compute in (Z.eqb (Z.of_N p) k) in change (Z.eqb (Z.of_N p) k) with bb end; cbn [truthy].
Ltac builder_post p key name :=
  step; cbn [lookup String.eqb Ascii.eqb Bool.eqb index_eval];
  change (lookup key (dict_of_decoded (tid_dv p) ++ [(key, PBytes name)])%list) with (Some (PBytes name));
  cbn [slice_eval opt_int as_int].

Theorem transport_id_sbp_build : forall (name enc : bytes) f, length name = 8 -> 1 <= f ->
  encode_dict (tid_dv 3) T_tid (zeros 24) = Ok enc -> length enc = 24 ->
  call_fun all_tables py_program f MTI [tid_dict 3 "eui64_name" name] = Ok (PBytes (firstn 8 enc ++ name ++ skipn 16 enc)%list).
Proof.
  intros name enc f Hn Hf Henc Hl. destruct f as [|f]; [lia|].
  builder_pre 3%N "eui64_name" name Henc. do 2 bbranch 3%N. builder_post 3%N "eui64_name" name.
  rewrite (py_slice_toN name 8 Hn : py_slice name None (Some 8%Z) = name).
  unfold with_var. lk. rewrite (store_mid enc name 8 16) by (rewrite ?Hl; lia). change (Z.to_nat 8) with 8. change (Z.to_nat 16) with 16. rewrite !exec_block_nil.
  step. lk. reflexivity.
Qed.

Theorem transport_id_srp_build : forall (name enc : bytes) f, length name = 16 -> 1 <= f ->
  encode_dict (tid_dv 4) T_tid (zeros 24) = Ok enc -> length enc = 24 ->
  call_fun all_tables py_program f MTI [tid_dict 4 "initiator_port_identifier" name] = Ok (PBytes (firstn 8 enc ++ name ++ skipn 24 enc)%list).
Proof.
  intros name enc f Hn Hf Henc Hl. destruct f as [|f]; [lia|].
  builder_pre 4%N "initiator_port_identifier" name Henc. do 3 bbranch 4%N. builder_post 4%N "initiator_port_identifier" name.
  rewrite (py_slice_toN name 16 Hn : py_slice name None (Some 16%Z) = name).
  unfold with_var. lk. rewrite (store_mid enc name 8 24) by (rewrite ?Hl; lia). change (Z.to_nat 8) with 8. change (Z.to_nat 24) with 24. rewrite !exec_block_nil.
  step. lk. reflexivity.
Qed.

Theorem transport_id_sop_build : forall (name enc : bytes) f, length name = 8 -> 1 <= f ->
  encode_dict (tid_dv 10) T_tid (zeros 24) = Ok enc -> length enc = 24 ->
  call_fun all_tables py_program f MTI [tid_dict 10 "routing_id" name] = Ok (PBytes (firstn 4 enc ++ name ++ skipn 12 enc)%list).
Proof.
  intros name enc f Hn Hf Henc Hl. destruct f as [|f]; [lia|].
  builder_pre 10%N "routing_id" name Henc. do 6 bbranch 10%N. builder_post 10%N "routing_id" name.
  rewrite (py_slice_toN name 8 Hn : py_slice name None (Some 8%Z) = name).
  unfold with_var. lk. rewrite (store_mid enc name 4 12) by (rewrite ?Hl; lia). change (Z.to_nat 4) with 4. change (Z.to_nat 12) with 12. rewrite !exec_block_nil.
  step. lk. reflexivity.
Qed.

(* ---------------------------------------------------------------- round trips *)
(* from "the builder returns firstn a enc ++ name ++ skipn (a+n) enc" and "the decoder reports the n bytes at offset a under `key`" *)
Lemma tid_round_trip (p : N) (key : string) (a n : nat) (name enc : bytes) :
  a + n <= 24 -> 1 <= a -> length name = n -> length enc = 24 -> decode_bits enc T_tid = Ok (tid_dv p) ->
  (forall tid, length tid = 24 -> lookup "protocol_id" (tid_fields tid) = Some (PInt (Z.of_N p)) ->
     tid_decodes tid (PDict (tid_fields tid ++ [(key, PBytes (firstn n (skipn a tid)))])%list)) ->
  let built := (firstn a enc ++ name ++ skipn (a + n) enc)%list in
  length built = 24 /\ tid_decodes built (tid_dict p key name).
Proof.
  intros Han Ha Hn Hl Hdec Hd built.
  assert (Hfa : length (firstn a enc) = a) by (rewrite firstn_length, Hl; lia).
  assert (Hlen : length built = 24) by (unfold built; rewrite !app_length, Hfa, skipn_length, Hl, Hn; lia).
  split; [exact Hlen|].
  assert (Hfields : tid_fields built = dict_of_decoded (tid_dv p)).
  { unfold tid_fields, built.
    assert (Hw : fields_within a PyParsers.T_tid = true) by (apply (fields_within_mono 1); [exact Ha|vm_compute; reflexivity]).
    rewrite decode_total_prefix by (rewrite Hfa; exact Hw).
    rewrite <- (decode_total_prefix (firstn a enc) (skipn a enc)) by (rewrite Hfa; exact Hw).
    rewrite firstn_skipn. unfold decode_total. unfold PyParsers.T_tid. unfold PyBuilders.T_tid in Hdec. now rewrite Hdec. }
  specialize (Hd built Hlen). rewrite Hfields in Hd. specialize (Hd eq_refl).
  replace (firstn n (skipn a built)) with name in Hd; [exact Hd|].
  unfold built. rewrite skipn_app, Hfa. assert (Hz : skipn a (firstn a enc) = []) by (apply skipn_all2; lia). rewrite Hz, Nat.sub_diag, skipn_O.
  change (@nil N ++ name ++ skipn (a + n) enc)%list with (name ++ skipn (a + n) enc)%list.
  rewrite firstn_app, Hn, Nat.sub_diag, firstn_O, app_nil_r. symmetry. apply firstn_all2. lia.
Qed.

Theorem transport_id_sbp_round_trip : forall (name : bytes) f, length name = 8 -> 1 <= f ->
  exists built, call_fun all_tables py_program f MTI [tid_dict 3 "eui64_name" name] = Ok (PBytes built) /\ length built = 24 /\
    tid_decodes built (tid_dict 3 "eui64_name" name).
Proof.
  intros name f Hn Hf. destruct (tid_enc 3 ltac:(lia)) as (enc & Henc & Hl & Hdec).
  eexists. split; [exact (transport_id_sbp_build name enc f Hn Hf Henc Hl)|].
  exact (tid_round_trip 3 "eui64_name" 8 8 name enc ltac:(lia) ltac:(lia) Hn Hl Hdec tid_decodes_sbp).
Qed.

Theorem transport_id_srp_round_trip : forall (name : bytes) f, length name = 16 -> 1 <= f ->
  exists built, call_fun all_tables py_program f MTI [tid_dict 4 "initiator_port_identifier" name] = Ok (PBytes built) /\ length built = 24 /\
    tid_decodes built (tid_dict 4 "initiator_port_identifier" name).
Proof.
  intros name f Hn Hf. destruct (tid_enc 4 ltac:(lia)) as (enc & Henc & Hl & Hdec).
  eexists. split; [exact (transport_id_srp_build name enc f Hn Hf Henc Hl)|].
  exact (tid_round_trip 4 "initiator_port_identifier" 8 16 name enc ltac:(lia) ltac:(lia) Hn Hl Hdec tid_decodes_srp).
Qed.

Theorem transport_id_sop_round_trip : forall (name : bytes) f, length name = 8 -> 1 <= f ->
  exists built, call_fun all_tables py_program f MTI [tid_dict 10 "routing_id" name] = Ok (PBytes built) /\ length built = 24 /\
    tid_decodes built (tid_dict 10 "routing_id" name).
Proof.
  intros name f Hn Hf. destruct (tid_enc 10 ltac:(lia)) as (enc & Henc & Hl & Hdec).
  eexists. split; [exact (transport_id_sop_build name enc f Hn Hf Henc Hl)|].
  exact (tid_round_trip 10 "routing_id" 4 8 name enc ltac:(lia) ltac:(lia) Hn Hl Hdec tid_decodes_sop).
Qed.

(* ---------------------------------------------------------------- iSCSI, TPID format 00b: the name comes back *)
Lemma rstrip_nul_zeros k : rstrip_nul (zeros k) = [].
Proof. induction k as [|k IH]; [reflexivity|]. change (zeros (S k)) with (0%N :: zeros k). cbn [rstrip_nul]. rewrite IH. reflexivity. Qed.

Lemma rstrip_nul_app_zeros (l : bytes) k : rstrip_nul (l ++ zeros k)%list = rstrip_nul l.
Proof.
  induction l as [|c l IH]; [change ([] ++ zeros k)%list with (zeros k); apply rstrip_nul_zeros|].
  change ((c :: l) ++ zeros k)%list with (c :: (l ++ zeros k))%list. cbn [rstrip_nul]. now rewrite IH.
Qed.

Lemma string_of_bytes_of_string (s : string) : forall b, bytes_of_string s = Some b -> string_of_bytes b = Some s.
Proof.
  induction s as [|c s IH]; intros b H; cbn [bytes_of_string] in H.
  - injection H as <-. reflexivity.
  - destruct (N.ltb (Ascii.N_of_ascii c) 128) eqn:E; [|discriminate]. destruct (bytes_of_string s) as [b'|]; [|discriminate]. injection H as <-.
    cbn [string_of_bytes]. rewrite E, (IH b' eq_refl), Ascii.ascii_N_embedding. reflexivity.
Qed.

Theorem iscsi_tid0_decodes : forall (s : string) (name rest : bytes) f,
  bytes_of_string s = Some name -> rstrip_nul name = name -> (Z.of_nat (length name) <= 65000)%Z -> 1 <= f ->
  call_with py_program (run all_tables py_program f) UTID [PBytes (iscsi_tid0 name ++ rest)%list] =
  Ok (PDict [("tpid_format", PInt 0); ("protocol_id", PInt 5); ("iscsi_name", PStr s)]).
Proof.
  intros s name rest f Hs Hstrip Hn Hf.
  destruct (iscsi_tid0_honest name Hn) as (Hlen & _ & Hal & Hname & _). cbv zeta in *.
  pose proof (pad4_props (length name)) as (_ & Hlo & Hhi).
  set (t := iscsi_tid0 name) in *. set (pad := pad4 (length name)) in *.
  assert (Ht0 : exists tl, t = (5%N :: tl)%list) by (eexists; reflexivity). destruct Ht0 as (tl & Ht0).
  unfold call_with. rewrite utid_lookup. cbn [fn_params bind_params PF_utid].
  destruct f as [|f]; [lia|]. rewrite run_S, exec_if. cbn [eval truthy]. cbn [fn_body PF_utid].
  cstep. cstep. rewrite utid_table. rewrite decode_bits_total by apply utid_wf.
  rewrite Ht0. change ((5%N :: tl) ++ rest)%list with ([5%N] ++ (tl ++ rest))%list.
  rewrite decode_total_prefix by (vm_compute; reflexivity).
  change (dict_of_decoded (decode_total [5%N] PyParsers.T_tid)) with [("tpid_format", PInt 0); ("protocol_id", PInt 5)].
  change ([5%N] ++ (tl ++ rest))%list with ((5%N :: tl) ++ rest)%list. rewrite <- Ht0.
  rewrite dict_update_nil by reflexivity.
  cstep.
  do 4 branch 5%Z.
  cstep. rewrite (py_slice_field t rest 2 2 ltac:(lia) : py_slice (t ++ rest)%list (Some 2%Z) (Some 4%Z) = _). rewrite Hal.
  rewrite exec_block_cons, exec_if. cbn [eval lookup String.eqb Ascii.eqb Bool.eqb index_eval cmp_eval py_eq as_int]. lk. cbn [index_eval lookup String.eqb Ascii.eqb Bool.eqb cmp_eval py_eq as_int].
  change (Z.eqb 0 0) with true. cbn [truthy].
  cstep. lk.
  replace (Z.of_N (N.of_nat (length t - 4)) + 4)%Z with (Z.of_nat (4 + pad)) by (rewrite Hlen; lia).
  rewrite (py_slice_field t rest 4 pad ltac:(lia) : py_slice (t ++ rest)%list (Some 4%Z) (Some (Z.of_nat (4 + pad))) = _).
  assert (Hbody : firstn pad (skipn 4 t) = (name ++ zeros (pad - length name))%list).
  { unfold t, iscsi_tid0. fold pad.
    assert (Hi : exists a b, int_to_ba (N.of_nat pad) 2 = [a; b]) by (eexists; eexists; reflexivity). destruct Hi as (a & b & ->).
    change (([5%N; 0%N] ++ [a; b] ++ name ++ zeros (pad - length name))%list) with (5%N :: 0%N :: a :: b :: (name ++ zeros (pad - length name)))%list.
    change (skipn 4 (5%N :: 0%N :: a :: b :: (name ++ zeros (pad - length name)))%list) with (name ++ zeros (pad - length name))%list.
    apply firstn_all2. rewrite app_length, zeros_length. lia. }
  rewrite Hbody. cbn [decode_str_eval]. rewrite rstrip_nul_app_zeros, Hstrip, (string_of_bytes_of_string s name Hs).
  cbn [dict_set String.eqb Ascii.eqb Bool.eqb]. rewrite !exec_block_nil.
  cstep. reflexivity.
Qed.

(* build, then parse: for every ASCII name that does not end in a NUL character the decoder reports TPID FORMAT 0, protocol 5 and that name *)
Theorem iscsi_tid0_round_trip : forall (s : string) (name : bytes) f,
  bytes_of_string s = Some name -> rstrip_nul name = name -> (Z.of_nat (length name) <= 65000)%Z -> 2 <= f ->
  exists built, call_fun all_tables py_program f MTI [PDict [("protocol_id", PInt 5); ("iscsi_name", PStr s)]] = Ok (PBytes built) /\
    forall rest, call_with py_program (run all_tables py_program f) UTID [PBytes (built ++ rest)%list] =
      Ok (PDict [("tpid_format", PInt 0); ("protocol_id", PInt 5); ("iscsi_name", PStr s)]).
Proof.
  intros s name f Hs Hstrip Hn Hf. exists (iscsi_tid0 name). split.
  - exact (iscsi_transport_id_format0 s name f Hs Hf ltac:(lia)).
  - intros rest. apply iscsi_tid0_decodes; try assumption. lia.
Qed.
