(* Proofs/FacadeProps.v — shape and wiring of the regenerated facade methods, and what the shape implies for
   every call: exactly one command handed to the device, after construction, before decoding; nothing sent
   when construction is refused; nothing decoded or returned when the device reports an error. *)
From Coq Require Import String.
From PS Require Import Base.Bytes Base.Result Model.Converter Model.Ctor Model.Facade Model.CorrUtil.
From PS Require Import Gen.Tables Gen.Ctors Gen.Opcodes Gen.FacadeTbl.
Set Default Timeout 60.
Open Scope string_scope.

Definition is_lookup (a : action) : bool := match a with ALookup _ | ALookupSuffix _ => true | _ => false end.
Definition is_construct (a : action) : bool := match a with AConstruct _ | AConstructBySA _ => true | _ => false end.

Definition well_shaped (acts : list action) : bool :=
  match acts with
  | l :: c :: AExecute _ :: rest =>
      is_lookup l && is_construct c &&
      match rest with
      | [AReturn] => true
      | [AUnmarshall _ _; AReturn] => true
      | _ => false
      end
  | _ => false
  end.

Definition is_exec (e : event) : bool := match e with EvExecute _ => true | _ => false end.
Definition ev_eqb (a b : event) : bool :=
  match a, b with
  | EvLookup, EvLookup | EvConstruct, EvConstruct | EvUnmarshall, EvUnmarshall | EvReturn, EvReturn => true
  | EvExecute x, EvExecute y => Bool.eqb x y
  | _, _ => false
  end.
Definition has (e : event) (t : list event) : bool := existsb (ev_eqb e) t.
Definition count_exec (t : list event) : nat := length (filter is_exec t).

(* the consequences of the shape, for every place a call can fail *)
Theorem shape_sound acts : well_shaped acts = true ->
  (* a complete call: look up, construct, execute exactly once, then decode, then return *)
  (exists r, trace None acts = [EvLookup; EvConstruct; EvExecute r; EvReturn] \/
             trace None acts = [EvLookup; EvConstruct; EvExecute r; EvUnmarshall; EvReturn]) /\
  (* never more than one command is handed to the device *)
  (forall f, (count_exec (trace f acts) <= 1)%nat) /\
  (* a refused construction (or a missing opcode): nothing is sent, nothing is returned *)
  (forall f, f = Some FailConstruct \/ f = Some FailLookup ->
     count_exec (trace f acts) = 0%nat /\ has EvReturn (trace f acts) = false) /\
  (* the device reported an error: the buffer is not decoded and no command object is returned *)
  (has EvUnmarshall (trace (Some FailExecute) acts) = false /\ has EvReturn (trace (Some FailExecute) acts) = false).
Proof.
  unfold well_shaped. destruct acts as [|l [|c [|x rest]]]; try discriminate.
  destruct x; try discriminate. intros H. apply andb_prop in H as [H Hrest]. apply andb_prop in H as [Hl Hc].
  assert (El : ev_of l = Some EvLookup) by (destruct l; try discriminate; reflexivity).
  assert (Ec : ev_of c = Some EvConstruct) by (destruct c; try discriminate; reflexivity).
  assert (Er : rest = [AReturn] \/ exists kw st, rest = [AUnmarshall kw st; AReturn]).
  { destruct rest as [|y rest1]; [discriminate|]. destruct y; try discriminate.
    - destruct rest1 as [|z rest2]; [discriminate|]. destruct z; try discriminate.
      destruct rest2; [|discriminate]. right. eauto.
    - destruct rest1; [|discriminate]. now left. }
  clear Hl Hc Hrest.
  destruct Er as [->|(kw & st & ->)]; cbn [trace]; rewrite El, Ec.
  - split; [exists raw; left; reflexivity|].
    split; [intros [[| | |]|]; cbn; lia|].
    split; [intros f [->| ->]; cbn; auto|cbn; auto].
  - split; [exists raw; right; reflexivity|].
    split; [intros [[| | |]|]; cbn; lia|].
    split; [intros f [->| ->]; cbn; auto|cbn; auto].
Qed.

(* ---------- wiring: the looked-up opcode and the facade's own arguments reach the right constructor parameters ---------- *)

Definition ctor_params (key : string) : option (list string * bool) :=
  match lookup key all_ctors with
  | Some c => Some (map fst (c_params c), c_kwargs c)
  | None => None
  end.

Fixpoint pos_ok (fparams : list string) (cparams : list string) (pos : list farg) : bool :=
  match pos, cparams with
  | [], _ => true
  | FBlocksize :: pos', p :: cp' => String.eqb p "blocksize" && pos_ok fparams cp' pos'
  | FArg x :: pos', p :: cp' => String.eqb p x && memb_s x fparams && pos_ok fparams cp' pos'
  | _, _ => false
  end.

Definition call_ok (m : fmethod) (c : ccall) : bool :=
  let '(key, pos, kw, star) := c in
  let fparams := map fst (f_params m) in
  match ctor_params key with
  | None => false
  | Some (cparams, ckw) =>
      (* the opcode is the first positional argument or the keyword `opcode`, exactly once *)
      match pos with
      | FOpcode :: pos' => pos_ok fparams cparams pos'
                           && forallb (fun kv => match snd kv with FArg x => memb_s (fst kv) cparams && memb_s x fparams | _ => false end) kw
      | [] => match kw with
              | ("opcode", FOpcode) :: kw' =>
                  forallb (fun kv => match snd kv with FArg x => memb_s (fst kv) cparams && memb_s x fparams | _ => false end) kw'
              | _ => false
              end
      | _ => false
      end
      && (negb star || f_kwargs m)
  end.

Definition method_wired (m : fmethod) : bool :=
  match f_acts m with
  | _ :: AConstruct c :: _ => call_ok m c
  | _ :: AConstructBySA bs :: _ =>
      forallb (fun b => let '(p, _, c) := b in memb_s p (map fst (f_params m)) && call_ok m c) bs
  | _ => false
  end.

(* ---------- get_opcode: first key (in table order) whose last two characters are the suffix ---------- *)
Definition has_suffix (suffix key : string) : bool :=
  let n := String.length key in
  String.eqb (String.substring (n - 2) 2 key) suffix.

Definition lookup_suffix (tbl : list opentry) (suffix : string) : option opentry :=
  find (fun e => has_suffix suffix (fst e)) tbl.

(* documented keyword arguments are parameters of the constructor the method calls *)
Definition doc_ok (m : fmethod) : bool :=
  match lookup (f_name m) doc_kwargs, f_acts m with
  | Some names, _ :: AConstruct (key, _, _, true) :: _ =>
      match ctor_params key with
      | Some (cparams, ckw) => forallb (fun n => memb_s n cparams) names
      | None => false
      end
  | _, _ => true
  end.
