(* Proofs/PyRoundTrip2.v — both directions of a structure whose descriptors carry their own length, over the REGENERATED bodies
   (Gen/PyFuncs.v) under Model/Py.v: REPORT PRIORITY.  The builder writes, per dictionary, the 8 fixed bytes with ADDITIONAL LENGTH set to
   the length of the TransportID it appends, and PRIORITY PARAMETER DATA LENGTH to what follows; decoding what was built returns the
   dictionaries, whole and in order; for any number of descriptors and any TransportID lengths below 2^16. *)
From Coq Require Import String ZArith List Bool Lia.
From PS Require Import Base.Bytes Base.Result Model.Converter Model.Py Proofs.FacadeState Proofs.PyLemmas Proofs.PyParsers Proofs.PyRoundTrip Gen.Tables Gen.PyFuncs.
Import ListNotations.
Set Default Timeout 120.
Open Scope string_scope.
Open Scope nat_scope.

Local Arguments py_slice : simpl never.
Local Arguments run : simpl never.
Local Arguments call_with : simpl never.
Local Arguments encode_pv : simpl never.
Local Arguments decode_bits : simpl never.
Local Arguments Z.add : simpl never.
Local Arguments Z.sub : simpl never.
Local Arguments Z.of_nat : simpl never.
Local Arguments Z.eqb : simpl never.
Local Arguments length : simpl never.
Local Arguments app : simpl never.
Local Arguments concat : simpl never.
Local Arguments zeros : simpl never.
Local Arguments int_to_ba_z : simpl never.
Local Arguments int_to_ba : simpl never.
Local Arguments store_slice : simpl never.
Local Arguments firstn : simpl never.
Local Arguments skipn : simpl never.

Ltac lk := repeat (rewrite lookup_set_same || rewrite lookup_set_other by (let H := fresh in intro H; discriminate H)).
Ltac step := rewrite exec_block_cons; cbn [exec exec_simple eval eval_list eval_opt]; lk.

Definition RPRIM := "scsi_cdb_report_priority.ReportPriority.marshall_datain".
Notation PF_rprim := PF_scsi_cdb_report_priority_ReportPriority_marshall_datain.
Lemma rprim_lookup : lookup RPRIM py_program = Some PF_rprim.
Proof. vm_compute. reflexivity. Qed.

(* keys the table does not know are skipped by encode_dict *)
Lemma encode_pv_app_unknown d k v L : lookup k L = None -> forall r, encode_pv (d ++ [(k, v)])%list L r = encode_pv d L r.
Proof.
  intros Hk. induction d as [|[k' v'] d IH]; intros r.
  - change ([] ++ [(k, v)])%list with [(k, v)]. unfold encode_pv. rewrite Hk. reflexivity.
  - change (((k', v') :: d) ++ [(k, v)])%list with ((k', v') :: (d ++ [(k, v)]))%list.
    unfold encode_pv. fold encode_pv. destruct (lookup k' L) as [f|]; [|apply IH].
    match goal with |- match ?c with _ => _ end = _ => destruct c as [x|e]; [|reflexivity] end.
    destruct (encode1 r f x); [apply IH|reflexivity].
Qed.

(* one descriptor: the dictionary of table fields, its TransportID, and the 8 bytes encode_dict makes of the fields *)
Record rp_item := mkRpi { rpi_fields : list (string * value); rpi_tid : bytes; rpi_enc : bytes }.
Definition rpi_dict (p : rp_item) : pv := PDict (dict_of_decoded (rpi_fields p) ++ [("transport_id", PBytes (rpi_tid p))])%list.
Definition rpi_len (p : rp_item) : bytes := int_to_ba (N.of_nat (length (rpi_tid p))) 2.
Definition rpi_bytes (p : rp_item) : bytes := ((firstn 6 (rpi_enc p) ++ rpi_len p) ++ rpi_tid p)%list.
Definition rpi_ok (p : rp_item) : Prop :=
  encode_dict (rpi_fields p) T_rpri (zeros 8) = Ok (rpi_enc p) /\ length (rpi_enc p) = 8 /\
  lookup "transport_id" (dict_of_decoded (rpi_fields p)) = None.

Definition rprim_inv (all : list rp_item) (items : list pv) (ρ : env) : Prop :=
  exists done rest, all = (done ++ rest)%list /\ items = map rpi_dict rest /\
    lookup "result" ρ = Some (PBytes (zeros 4 ++ concat (map rpi_bytes done))%list).

Theorem reportpriority_build_exact : forall (all : list rp_item) f, Forall rpi_ok all -> 1 <= f ->
  call_fun all_tables py_program f RPRIM [PDict [("priority_descriptors", PList (map rpi_dict all))]]
  = Ok (PBytes (int_to_ba (N.of_nat (length (concat (map rpi_bytes all)))) 4 ++ concat (map rpi_bytes all))%list).
Proof.
  intros all f Hall Hf. destruct f as [|f]; [lia|].
  unfold call_fun, call_with. rewrite rprim_lookup. cbn [fn_params bind_params PF_rprim].
  rewrite run_S, exec_if. cbn [eval truthy]. cbn [fn_body PF_rprim].
  step. cbn [bytearray_eval as_int]. change (Z.ltb 4 0) with false. change (Z.ltb 1048576 4) with false. cbn iota. change (Z.to_nat 4) with 4.
  rewrite exec_block_cons, exec_if. cbn [eval]. lk. cbn [lookup String.eqb Ascii.eqb Bool.eqb in_eval negb truthy]. rewrite exec_block_nil.
  rewrite exec_block_cons, exec_for. cbn [eval]. lk. cbn [lookup String.eqb Ascii.eqb Bool.eqb index_eval iter_items].
  match goal with |- context [for_iter _ ?c ?a "l" ?body _ ?r0] =>
    destruct (for_consumes all_tables c a "l" body (rprim_inv all)) with (ds := map rpi_dict all) (ρ := r0) as (ρ' & Hrun & Hinv) end.
  - intros d ds ρ (done & rest & Hsplit & Hds & Hres). destruct rest as [|p rest]; [discriminate|]. cbn [map] in Hds. injection Hds as -> ->.
    assert (Hin : In p all) by (rewrite Hsplit; apply in_or_app; right; now left).
    rewrite Forall_forall in Hall. destruct (Hall _ Hin) as (Henc & Hlen & Hfresh).
    step. cbn [bytearray_eval as_int]. change (Z.ltb 8 0) with false. change (Z.ltb 1048576 8) with false. cbn iota. change (Z.to_nat 8) with 8.
    step. unfold rpi_dict at 1. rewrite rpri_table. unfold with_var. lk.
    rewrite encode_pv_app_unknown by (vm_compute; reflexivity). rewrite encode_pv_of_decoded, Henc.
    step. unfold rpi_dict at 1. cbn [index_eval]. rewrite (lookup_app_none _ _ _ Hfresh). cbn [lookup String.eqb Ascii.eqb Bool.eqb len_eval].
    unfold with_var. lk.
    assert (Hst : store_slice (PBytes (rpi_enc p)) (Some (PInt 6)) (Some (PInt 8)) (PBytes (int_to_ba_z (Z.of_nat (length (rpi_tid p))) 2))
                  = Ok (PBytes (firstn 6 (rpi_enc p) ++ rpi_len p)%list)).
    { unfold store_slice. cbn [opt_int as_int]. unfold clip. rewrite Hlen. change (Z.ltb 6 0) with false. change (Z.ltb 8 0) with false. cbn iota.
      change (Z.to_nat (Z.min 6 (Z.of_nat 8))) with 6. change (Z.to_nat (Z.min 8 (Z.of_nat 8))) with 8. change (Nat.max 6 8) with 8.
      rewrite skipn_all2 by lia. rewrite app_nil_r. unfold rpi_len, int_to_ba_z.
      destruct (Z.leb_spec 0 (Z.of_nat (length (rpi_tid p)))); [|lia]. change (Z.to_nat (Z.min (Z.max 2 0) 4096)) with 2.
      replace (Z.to_N (Z.of_nat (length (rpi_tid p)))) with (N.of_nat (length (rpi_tid p))) by lia. reflexivity. }
    cbn [as_int]. rewrite Hst.
    step. unfold rpi_dict at 1. cbn [index_eval]. rewrite (lookup_app_none _ _ _ Hfresh). cbn [lookup String.eqb Ascii.eqb Bool.eqb bin_eval].
    rewrite Hres. cbn [bin_eval as_int]. rewrite exec_block_nil.
    eexists. split; [reflexivity|]. exists (done ++ [p])%list, rest. split; [now rewrite <- app_assoc|]. split; [reflexivity|].
    lk. rewrite map_app, concat_app. change (concat (map rpi_bytes [p])) with (rpi_bytes p ++ [])%list. rewrite app_nil_r, <- app_assoc. reflexivity.
  - exists [], all. repeat split.
  - rewrite Hrun. destruct Hinv as (done & rest & Hsplit & Hds & Hres). symmetry in Hds. apply map_eq_nil in Hds. subst rest. rewrite app_nil_r in Hsplit. subst done.
    step. rewrite Hres. cbn [len_eval bin_eval as_int]. unfold with_var. rewrite Hres.
    set (body := concat (map rpi_bytes all)).
    assert (Hl : length (zeros 4 ++ body)%list = 4 + length body) by (rewrite app_length, zeros_length; reflexivity).
    rewrite Hl.
    assert (Hi : int_to_ba_z (Z.of_nat (4 + length body) - 4) 4 = int_to_ba (N.of_nat (length body)) 4).
    { unfold int_to_ba_z. destruct (Z.leb_spec 0 (Z.of_nat (4 + length body) - 4)); [|lia].
      change (Z.to_nat (Z.min (Z.max 4 0) 4096)) with 4. f_equal. lia. }
    cbn [as_int]. rewrite Hi.
    assert (Hs : forall x : bytes, length x = 4 -> store_slice (PBytes (zeros 4 ++ body)%list) None (Some (PInt 4)) (PBytes x)
                 = Ok (PBytes (x ++ body)%list)).
    { intros x Hx. unfold store_slice. cbn [opt_int as_int]. unfold clip. rewrite Hl. change (Z.ltb 4 0) with false. cbn iota.
      replace (Z.to_nat (Z.min 4 (Z.of_nat (4 + length body)))) with 4 by lia. change (Nat.max 0 4) with 4. rewrite firstn_O.
      rewrite skipn_app, skipn_all2 by (rewrite zeros_length; lia). rewrite zeros_length, Nat.sub_diag. reflexivity. }
    rewrite Hs by apply int_to_ba_length.
    step. lk. reflexivity.
Qed.

(* ------------------------------------------------------------------ dict -> bytes -> dict *)
From PS Require Import Proofs.Codec Proofs.Layout.

Lemma rpri_wf8 : wf_layout 8 T_rpri = true.
Proof. vm_compute. reflexivity. Qed.

(* a complete valid dictionary whose ADDITIONAL LENGTH is the length of its TransportID: the eight bytes encode_dict makes of it already
   carry that length in bytes 6..7 (so the builder's explicit store does not change them), and they decode to the dictionary *)
Lemma rp_enc_consistent (dv : list (string * value)) (tid : bytes) :
  valid_dict 8 T_rpri dv = true -> map fst dv = map fst T_rpri -> In ("adlen", VI (N.of_nat (length tid))) dv ->
  exists enc, encode_dict dv T_rpri (zeros 8) = Ok enc /\ length enc = 8 /\
    (firstn 6 enc ++ int_to_ba (N.of_nat (length tid)) 2)%list = enc /\ decode_bits enc T_rpri = Ok dv.
Proof.
  intros Hv Hk Ha.
  destruct (decode_encode_field 8 T_rpri dv (zeros 8) "adlen" (Mask 65535 6) rpri_wf8 Hv (zeros_length 8) (bytes_ok_zeros 8)
              ltac:(right; right; left; reflexivity)) as (enc & Henc & Hlen & Hok & Hdec & _).
  exists enc. split; [exact Henc|]. split; [exact Hlen|]. split.
  - specialize (Hdec _ Ha (ba_to_int_zeros 8)).
    unfold decode1 in Hdec. change (ctz 65535) with (Some 0%N) in Hdec. cbv iota in Hdec. change (nbytes 65535) with 2 in Hdec.
    change (N.to_nat 6) with 6 in Hdec. change (6 + 2) with 8 in Hdec.
    rewrite !N.shiftr_0_r in Hdec. injection Hdec as Hdec.
    assert (Hs : slice enc 6 8 = skipn 6 enc).
    { unfold slice. change (8 - 6) with 2. apply firstn_all2. rewrite skipn_length. lia. }
    rewrite Hs in Hdec.
    assert (Hl2 : length (skipn 6 enc) = 2) by (rewrite skipn_length; lia).
    pose proof (ba_to_int_bound (skipn 6 enc) (bytes_ok_skipn 6 enc Hok)) as Hb. rewrite Hl2 in Hb. change (256 ^ N.of_nat 2)%N with 65536%N in Hb.
    change 65535%N with (N.ones 16) in Hdec. rewrite N.land_ones in Hdec. change (2 ^ 16)%N with 65536%N in Hdec.
    rewrite N.mod_small in Hdec by exact Hb.
    rewrite <- Hdec. pose proof (int_to_ba_to_int (skipn 6 enc) (bytes_ok_skipn 6 enc Hok)) as Hi. rewrite Hl2 in Hi. rewrite Hi. apply firstn_skipn.
  - exact (decode_bits_of_encoded 8 T_rpri dv enc rpri_wf8 Hv Hk Henc).
Qed.

Definition rp_item_dict (it : list (string * value) * bytes) : pv :=
  PDict (dict_of_decoded (fst it) ++ [("transport_id", PBytes (snd it))])%list.

Definition rp_item_ok (it : list (string * value) * bytes) : Prop :=
  valid_dict 8 T_rpri (fst it) = true /\ map fst (fst it) = map fst T_rpri /\ In ("adlen", VI (N.of_nat (length (snd it)))) (fst it).

Lemma rp_keys_lookup (dv : list (string * value)) (n : N) : map fst dv = map fst T_rpri -> In ("adlen", VI n) dv ->
  lookup "adlen" (dict_of_decoded dv) = Some (PInt (Z.of_N n)) /\ lookup "transport_id" (dict_of_decoded dv) = None.
Proof.
  intros Hk Hin.
  destruct dv as [|[k1 v1] [|[k2 v2] [|[k3 v3] [|? ?]]]]; try discriminate Hk.
  cbn [map fst T_rpri T_scsi_cdb_report_priority__ReportPriority___data_bits] in Hk. injection Hk as -> -> ->.
  destruct Hin as [H|[H|[H|[]]]]; try discriminate H. injection H as ->. split; reflexivity.
Qed.

(* build, then parse: every list of complete valid descriptor dictionaries with their TransportIDs comes back, whole and in order — any
   number of them, any TransportID lengths (the ADDITIONAL LENGTH field being what it must be), as long as the whole fits the 32-bit
   PRIORITY PARAMETER DATA LENGTH *)
Theorem reportpriority_parse_inverts_build : forall (items : list (list (string * value) * bytes)) f,
  Forall rp_item_ok items ->
  (Z.of_nat (fold_right (fun it acc => (8 + length (snd it) + acc)%nat) 0%nat items) < 4294967296)%Z -> length items + 2 <= f ->
  exists built, call_fun all_tables py_program f RPRIM [PDict [("priority_descriptors", PList (map rp_item_dict items))]] = Ok (PBytes built) /\
    call_fun all_tables py_program f RPRI [PBytes built] = Ok (PDict [("priority_descriptors", PList (map rp_item_dict items))]).
Proof.
  intros items f Hall Hsmall Hf.
  (* the eight fixed bytes of each item *)
  assert (Henc : exists ps : list rp_item, map (fun p => (rpi_fields p, rpi_tid p)) ps = items /\
            Forall (fun p => rpi_ok p /\ (firstn 6 (rpi_enc p) ++ rpi_len p)%list = rpi_enc p /\ decode_bits (rpi_enc p) T_rpri = Ok (rpi_fields p)
                             /\ lookup "adlen" (dict_of_decoded (rpi_fields p)) = Some (PInt (Z.of_nat (length (rpi_tid p))))) ps).
  { clear Hsmall Hf. induction Hall as [|[dv tid] items (Hv & Hk & Ha) _ (ps & Hm & Hp)]; [exists []; split; [reflexivity|constructor]|].
    cbn [fst snd] in *. destruct (rp_enc_consistent dv tid Hv Hk Ha) as (enc & He & Hl & Hc & Hd).
    destruct (rp_keys_lookup dv _ Hk Ha) as [Hla Hlt].
    exists (mkRpi dv tid enc :: ps). split; [cbn [map rpi_fields rpi_tid]; now rewrite Hm|].
    constructor; [|exact Hp]. cbn [rpi_fields rpi_tid rpi_enc]. unfold rpi_ok, rpi_len. cbn [rpi_fields rpi_tid rpi_enc].
    rewrite nat_N_Z in Hla. repeat split; assumption. }
  destruct Henc as (ps & Hm & Hp).
  assert (Hdicts : map rp_item_dict items = map rpi_dict ps).
  { rewrite <- Hm, map_map. reflexivity. }
  assert (Hok : Forall rpi_ok ps) by (eapply Forall_impl; [|exact Hp]; intros p H; apply H).
  pose proof (reportpriority_build_exact ps f Hok ltac:(lia)) as Hbuild.
  rewrite Hdicts. eexists. split; [exact Hbuild|].
  (* what was built is a conformant REPORT PRIORITY response *)
  set (descs := map (fun p => mkPd (rpi_enc p) (rpi_tid p)) ps).
  assert (Hbytes : map rpi_bytes ps = map pd_bytes descs).
  { unfold descs. rewrite map_map. apply map_ext_in. intros p Hin. rewrite Forall_forall in Hp. destruct (Hp _ Hin) as (_ & Hc & _).
    unfold rpi_bytes, pd_bytes. cbn [pd_fixed pd_tid]. now rewrite Hc. }
  assert (Hpd : Forall pd_ok descs).
  { unfold descs. apply Forall_map. eapply Forall_impl; [|exact Hp]. intros p ((_ & Hl & _) & _ & Hd & Hla).
    unfold pd_ok, pd_fields. cbn [pd_fixed pd_tid]. split; [exact Hl|]. unfold decode_total. rewrite Hd. exact Hla. }
  assert (Hlen : length (concat (map pd_bytes descs)) = fold_right (fun it acc => 8 + length (snd it) + acc) 0 items).
  { rewrite <- Hm. unfold descs. clear -Hp. induction Hp as [|p ps ((_ & Hl & _) & _) _ IH]; [reflexivity|].
    cbn [map fold_right snd]. change (concat (?x :: ?l)) with (x ++ concat l)%list. rewrite app_length, IH. unfold pd_bytes. cbn [pd_fixed pd_tid].
    rewrite app_length, Hl. lia. }
  rewrite Hbytes.
  pose proof (report_priority_exact (int_to_ba (N.of_nat (length (concat (map pd_bytes descs)))) 4) descs [] f) as Hex.
  rewrite app_nil_r in Hex. rewrite Hex.
  - do 5 f_equal. unfold descs. rewrite map_map. apply map_ext_in. intros p Hin.
    rewrite Forall_forall in Hp. destruct (Hp _ Hin) as (_ & _ & Hd & _).
    unfold pd_dict, rpi_dict, pd_fields. cbn [pd_fixed pd_tid]. unfold decode_total. now rewrite Hd.
  - apply int_to_ba_length.
  - exact Hpd.
  - rewrite ba_to_int_to_ba. rewrite N.mod_small by (change (256 ^ N.of_nat 4)%N with 4294967296%N; lia). lia.
  - unfold descs. rewrite map_length. rewrite <- Hm, map_length in Hf. lia.
Qed.
