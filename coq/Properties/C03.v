(* Properties/C03.v — "Data buffers match the transfer the CDB announces".
   For every command class and ALL arguments: the data-in buffer is a zero buffer exactly as long as
   the standard's transfer (allocation length; transfer length x block size; 0), the data-out buffer is
   the caller's write data / the composed parameter list / empty; both are always byte buffers.
   ATA PASS-THROUGH: a complete sweep of the SAT flag space (finite, stated). *)
From Coq Require Import String.
From PS Require Import Base.Bytes Base.Result Model.Converter Model.Command Model.Ctor Model.InitCdb Model.CorrUtil.
From PS Require Import Proofs.CtorSound Proofs.CdbSpec Proofs.CtorBuffers Proofs.Ata Model.Xfer Proofs.XferProps.
From PS Require Import Spec.CdbFormats Gen.Tables Gen.Ctors.
Open Scope string_scope.
Open Scope N_scope.

Definition class_xfer_ok (kc : string * ctor) : bool :=
  match lookup (fst kc) xfer_specs with
  | Some (xo, IZeros li) => xfer_matches (snd kc) (xo, IZeros li)
  | Some (OAta, IAta) => ata_ok (snd kc) (if Nat.eqb (length (c_bits (snd kc))) 14 then 161 else 133)
  | _ => false
  end.

Theorem C03_all_classes_match : forallb class_xfer_ok all_ctors = true /\ length all_ctors = 42%nat.
Proof. vm_compute. split; reflexivity. Qed.

(* data-in and data-out of every non-ATA class, for all arguments *)
Theorem C03_buffers : forall key c xo li,
  In (key, c) all_ctors -> lookup key xfer_specs = Some (xo, IZeros li) ->
  forall ext op G pos kw G' cm n,
    init_cdb (op_value op) = Ok n ->
    run_ctor ext op c init_cdb G pos kw = (G', Ok cm) ->
    exists ρ0 ni,
      bind_args c pos kw = Ok ρ0 /\
      datain cm = CZeros ni /\ xlen_denotes ρ0 li ni /\
      match xo with
      | OZeros lo => exists no, dataout cm = CZeros no /\ xlen_denotes ρ0 lo no
      | OCaller d => lookup d ρ0 = Some (dataout cm)
      | OCallerUnless flag d =>
          exists fv, lookup flag ρ0 = Some fv /\
                     if truthy fv then dataout cm = CBytes [] else lookup d ρ0 = Some (dataout cm)
      | OParamList => True
      | OAta => True
      end.
Proof.
  intros key c xo li Hin Hl ext op G pos kw G' cm n Hn Hrun.
  destruct C03_all_classes_match as [H _]. rewrite forallb_forall in H. specialize (H _ Hin).
  unfold class_xfer_ok in H. cbn [fst snd] in H. rewrite Hl in H.
  assert (H' : xfer_matches c (xo, IZeros li) = true) by (destruct xo; exact H).
  clear H. rename H' into H.
  exact (xfer_sound ext op init_cdb c (xo, IZeros li) li H eq_refl G pos kw G' cm n Hn Hrun).
Qed.

(* the parameter list composed by the library is what is sent, and PARAMETER LIST LENGTH is computed from it:
   the expression that fills the CDB field is len() of the very variable stored as data-out
   (decided on the regenerated IR by xfer_matches), and len() of a byte buffer is its length *)
Theorem C03_param_list_length : forall ext op ρ w v L,
  eval ext op ρ (ELen (EVar w)) = Ok (CInt L) -> lookup w ρ = Some v ->
  match v with CBytes b => L = N.of_nat (length b) | CZeros n => L = n | _ => False end.
Proof.
  intros ext op ρ w v L He Hl. rewrite eval_eq, (eval_eq _ _ ρ (EVar w)) in He. unfold get in He. rewrite Hl in He.
  destruct v; try discriminate; now inversion He.
Qed.

(* ATA PASS-THROUGH(12/16): all 384 combinations of T_LENGTH, BYT_BLOK, T_TYPE, T_DIR, block size
   in {0,512,4096}, extra_tl in {None,7}, data absent/present follow the SAT rules (other arguments fixed) *)
Theorem C03_ata_sweep :
  forall f, In f all_flags ->
    ata_case_ok C_scsi_cdb_atapassthrough12__ATAPassThrough12 161 f = true /\
    ata_case_ok C_scsi_cdb_atapassthrough16__ATAPassThrough16 133 f = true.
Proof.
  intros f Hf. split; apply ata_ok_sound; try assumption; vm_compute; reflexivity.
Qed.

(* iSCSI derives direction and length from len() of the two buffers: with byte buffers, and at most one
   of them non-empty, that is the announced transfer *)
(* iSCSI: the REGENERATED transfer set-up of ISCSIDevice.execute hands the binding, for ALL buffer lengths, direction
   WRITE with len(data-out) when there is data-out, else READ with len(data-in) when there is data-in, else no transfer;
   Task is called with (cdb, dir, xferlen) and command with (lun, task, dataout, datain) — any other shape makes
   iscsi_xfer None.  SG_IO: sgio.execute is called with (file, cdb, dataout, datain). *)
Theorem C03_iscsi_direction : forall lo li,
  iscsi_xfer lo li = Some (if negb (lo =? 0) then ("SCSI_XFER_WRITE", lo)
                           else if negb (li =? 0) then ("SCSI_XFER_READ", li) else ("SCSI_XFER_NONE", 0)).
Proof. exact iscsi_xfer_spec. Qed.

Theorem C03_sgio_arguments : sgio_args_ok = true.
Proof. exact sgio_args_checked. Qed.

(* RE-ISSUE. Neither transport's execute() stores to cmd.cdb / cmd.dataout / cmd.datain other than filling bytes in
   place (every store to the command object is REGENERATED into exec_cmd_stores): the buffers a command object is
   handed over with on a second execute() are the ones its constructor sized, whatever the device transferred before. *)
Theorem C03_execute_keeps_buffers : buffers_kept = true.
Proof. vm_compute. reflexivity. Qed.
