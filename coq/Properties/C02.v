(* Properties/C02.v — "CDB decoding is the exact inverse of CDB encoding", for every command class,
   all in-range assignments to all fields simultaneously, and all canonical CDB byte strings.
   marshall_cdb / unmarshall_cdb are classmethods over the class's own table (isolation from other commands is C09). *)
From Coq Require Import String.
From PS Require Import Base.Bytes Base.Result Model.Converter Model.Command Model.Ctor Model.InitCdb Model.CorrUtil.
From PS Require Import Proofs.Codec Proofs.Layout Proofs.CtorSound Proofs.CdbSpec.
From PS Require Import Spec.CdbFormats Gen.Tables Gen.Ctors Properties.C01.
From PS Require Gen.Misc.
Open Scope string_scope.

(* every class's own mask table is a well-formed layout of a CDB of the standard's length
   (distinct names, contiguous non-zero masks inside the CDB, pairwise disjoint), and the fields the
   constructor fills have exactly the standard's widths (part of ctor_matches) *)
Theorem C02_tables_well_formed : forall key c sp,
  In (key, c) all_ctors -> lookup key cdb_specs = Some sp -> wf_layout (sp_len sp) (c_bits c) = true.
Proof.
  intros key c sp Hin Hsp. apply (ctor_matches_wf c sp).
  pose proof C01_all_classes_match as H. rewrite forallb_forall in H. specialize (H _ Hin).
  unfold class_ok in H. cbn [fst snd] in H. now rewrite Hsp in H.
Qed.

(* decoding the CDB a constructor built returns exactly the values it was built from
   (and zero for the table's fields it did not supply) *)
Theorem C02_decode_inverts_encode : forall key c sp,
  In (key, c) all_ctors -> lookup key cdb_specs = Some sp ->
  forall ext op G pos kw G' cm,
    init_cdb (op_value op) = Ok (sp_len sp) ->
    run_ctor ext op c init_cdb G pos kw = (G', Ok cm) ->
    exists d r, cdb cm = Some r /\
      (all_ints d = true -> valid_dict (sp_len sp) (c_bits c) (ints d) = true ->
         encode_dict (ints d) (c_bits c) (zeros (sp_len sp)) = Ok r /\
         forall k f, In (k, f) (c_bits c) ->
           (forall v, In (k, v) (ints d) -> decode1 r f = Ok v) /\
           (~ In k (map fst (ints d)) -> decode1 r f = decode1 (zeros (sp_len sp)) f)).
Proof.
  intros key c sp Hin Hsp ext op G pos kw G' cm Hlen Hrun.
  destruct (C01_wire_format key c sp Hin Hsp ext op G pos kw G' cm Hlen Hrun) as (ρ0 & d & r & _ & Hcdb & HG & Hrest).
  exists d, r. split; [assumption|]. intros H H0. destruct (Hrest H H0) as (_ & _ & E & _). split; [exact E|].
  intros k f H1.
  destruct (decode_encode_field (sp_len sp) (c_bits c) (ints d) (zeros (sp_len sp)) k f
              (C02_tables_well_formed key c sp Hin Hsp) H0 (zeros_length _) (bytes_ok_zeros _) H1)
    as (r2 & E2 & _ & _ & Hdec & Hother).
  rewrite E in E2. inversion E2; subst r2. split.
  - intros v Hv. apply Hdec; [assumption|apply ba_to_int_zeros].
  - exact Hother.
Qed.

(* re-encoding a decoded CDB reproduces the original bytes, for every CDB of the right length whose
   undefined bits are zero (K.marshall_cdb takes the length from the operation code it finds in the dictionary) *)
Theorem C02_encode_inverts_decode : forall key c sp,
  In (key, c) all_ctors -> lookup key cdb_specs = Some sp ->
  forall b, length b = sp_len sp -> bytes_ok b ->
    (forall j, (forall k f g, In (k, f) (c_bits c) -> geom_of (sp_len sp) f = Some g -> in_field g j = false) ->
               N.testbit (ba_to_int b) j = false) ->
    exists d, unmarshall_cdb c b = Ok d /\ encode_dict d (c_bits c) (zeros (sp_len sp)) = Ok b /\
      (forall v, lookup "opcode" d = Some (VI v) -> init_cdb v = Ok (sp_len sp) -> marshall_cdb init_cdb c d = Ok b).
Proof.
  intros key c sp Hin Hsp b Hl Hb Hz. unfold unmarshall_cdb.
  destruct (encode_decode (sp_len sp) (c_bits c) b (C02_tables_well_formed key c sp Hin Hsp) Hl Hb Hz) as (d & D & E).
  exists d. split; [assumption|]. split; [assumption|].
  intros v Hv Hi. unfold marshall_cdb. now rewrite Hv, Hi.
Qed.

(* changing one field's value changes only that field's decoded value *)
Theorem C02_field_independence : forall key c sp,
  In (key, c) all_ctors -> lookup key cdb_specs = Some sp ->
  forall d d' k k2 f2,
    valid_dict (sp_len sp) (c_bits c) d = true -> valid_dict (sp_len sp) (c_bits c) d' = true ->
    map fst d = map fst d' ->
    (forall k1 v, k1 <> k -> (In (k1, v) d <-> In (k1, v) d')) ->
    In (k2, f2) (c_bits c) -> k2 <> k ->
    exists r1 r2, encode_dict d (c_bits c) (zeros (sp_len sp)) = Ok r1 /\
                  encode_dict d' (c_bits c) (zeros (sp_len sp)) = Ok r2 /\ decode1 r1 f2 = decode1 r2 f2.
Proof.
  intros key c sp Hin Hsp d d' k k2 f2 Hv Hv' Hk Hag Hin2 Hne.
  eapply field_independence; try eassumption.
  - eapply C02_tables_well_formed; eassumption.
  - apply zeros_length.
  - apply bytes_ok_zeros.
Qed.

(* the base class all commands share is exactly the modelled text and carries no state of its own (see C01) *)
Theorem C02_command_base_is_the_modelled_text : Gen.Misc.command_base_unknown = [].
Proof. vm_compute. reflexivity. Qed.
