(* Properties/C15.v — "Commands never go through a stale device handle; handles are released".
   For ALL sequences of execute / replug / unplug / close-failure / close / exit events (no bound). The shape of
   execute()'s replug prologue and of _is_replugged/open/close/__exit__ is REGENERATED from scsi_device.py. *)
From Coq Require Import String.
From PS Require Import Base.Bytes Base.Result Model.Device Model.Command Model.Enum Model.Exec Gen.Tables Gen.Misc Proofs.DeviceProps.
Open Scope nat_scope.

(* the source has the shape the model assumes: try: close() finally: open() under `detect and replugged`,
   inode comparison with !=, open() records the inode, __exit__ closes *)
Theorem C15_shape : replug_prologue = PTryCloseFinallyOpen /\ replug_shapes_ok = true.
Proof. vm_compute. split; reflexivity. Qed.

(* detection on: every command is sent through a handle on the node that exists at that moment *)
Theorem C15_never_stale : forall es,
  Forall sent_fresh (snd (run replug_prologue (init true) es)).
Proof.
  intros es. rewrite (proj1 C15_shape). apply run_fresh; [apply init_inv|reflexivity].
Qed.

(* one execute: a vanished node is an error and nothing is sent; otherwise the device afterwards holds a handle on
   the current node — also when closing the stale handle failed (the error of close() is raised, nothing is sent) *)
Theorem C15_execute : forall wd, Inv wd -> d_detect (snd wd) = true ->
  (w_node (fst wd) = None -> snd (step replug_prologue wd EExecute) = ORaised OSError /\ fst (step replug_prologue wd EExecute) = wd) /\
  (forall i, w_node (fst wd) = Some i -> d_ino (snd (fst (step replug_prologue wd EExecute))) = i).
Proof.
  intros wd HI Hd. rewrite (proj1 C15_shape).
  destruct (step_fresh wd EExecute HI Hd) as (_ & A & B & _). split; [apply A; reflexivity|apply B; reflexivity].
Qed.

(* detection off: the original handle is kept, whatever happens to the node *)
Theorem C15_keep_when_disabled : forall es,
  d_cur (snd (fst (run replug_prologue (init false) es))) = 0.
Proof. intros es. exact (proj1 (keep_handle replug_prologue es (init false) eq_refl)). Qed.

(* every handle is released at most once at the OS level; close() / leaving a with block releases the current one *)
Theorem C15_release : forall detect es,
  handles_ok (fst (fst (run replug_prologue (init detect) es))) /\
  forall w d, w_close_fails w = false -> h_open (the_handle (fst (fst (step replug_prologue (w, d) EExit))) (d_cur d)) = false.
Proof.
  intros detect es. split.
  - apply release_once. unfold handles_ok, init. cbn. repeat constructor; auto.
  - intros w d Hf. exact (close_releases replug_prologue w d Hf).
Qed.

Example C15_example :
  snd (run replug_prologue (init true) [EExecute; EReplug; ESetCloseFails true; EExecute; EExecute; EUnplug; EExecute])
  = [OSent 0 1 (Some 1) true; ONothing; ONothing; ORaised OSError; OSent 1 2 (Some 2) true; ONothing; ORaised OSError].
Proof. vm_compute. reflexivity. Qed.
