(* Properties/C19.v — "The transport bindings are optional; a missing one is refused, not half-used"
   (dispatch part; the import half is exercised in four interpreter configurations by the runner).
   For ALL device strings, both access modes, all initiator names and the four presence combinations. *)
From Coq Require Import String Ascii.
From PS Require Import Base.Bytes Base.Result Model.InitDevice Gen.Misc.
Open Scope string_scope.

(* the regenerated prefix tests compare exactly as many characters as the literal has *)
Theorem C19_slices_are_prefixes :
  init_device_rows = [(5%nat, "/dev/", "SCSIDevice"); (8%nat, "iscsi://", "ISCSIDevice")] /\
  scsi_device_guard = Some (5%nat, "/dev/") /\ iscsi_device_guard = Some (8%nat, "iscsi://") /\
  init_device_else_raises = true /\
  (* the requested name is stored unmodified by __init__ and is what open() hands to the binding (stores REGENERATED) *)
  name_flow_ok scsi_device_name_flow = true /\ name_flow_ok iscsi_device_name_flow = true.
Proof. vm_compute. repeat split; reflexivity. Qed.

Lemma slice_prefix lit s : slice_eq (String.length lit) lit s = String.prefix lit s.
Proof.
  unfold slice_eq. destruct (String.prefix lit s) eqn:P.
  - apply String.prefix_correct in P. rewrite P. apply String.eqb_refl.
  - destruct (String.eqb_spec (String.substring 0 (String.length lit) s) lit) as [E|]; [|reflexivity].
    apply String.prefix_correct in E. congruence.
Qed.

Lemma not_both dev : String.prefix "/dev/" dev = true -> String.prefix "iscsi://" dev = false.
Proof.
  destruct dev as [|c dev]; [discriminate|]. cbn [String.prefix].
  destruct (Ascii.ascii_dec "/"%char c) as [<-|Hne]; [intros _|intros H; discriminate H].
  destruct (Ascii.ascii_dec "i"%char "/"%char) as [E|_]; [discriminate E|reflexivity].
Qed.

Theorem C19_dispatch : forall cfg dev rw iname,
  (String.prefix "/dev/" dev = true ->
     init_device cfg dev rw iname =
       if has_sgio cfg then Ok (DSCSIDevice, [COpen dev (if rw then "w+b" else "rb")]) else Raise NotImplementedError) /\
  (String.prefix "iscsi://" dev = true ->
     init_device cfg dev rw iname =
       if has_iscsi cfg
       then Ok (DISCSIDevice, [CContext (if Nat.eqb (String.length iname) 0 then dev else iname); CUrl dev; CConnect])
       else Raise NotImplementedError) /\
  (String.prefix "/dev/" dev = false -> String.prefix "iscsi://" dev = false ->
     init_device cfg dev rw iname = Raise NotImplementedError).
Proof.
  intros cfg dev rw iname. destruct C19_slices_are_prefixes as (R & G1 & G2 & E & N1 & N2).
  unfold init_device. rewrite R. cbn [dispatch]. unfold new_scsi_device, new_iscsi_device, guard_passes, opened_name.
  rewrite G1, G2, E, N1, N2.
  assert (S1 : slice_eq 5 "/dev/" dev = String.prefix "/dev/" dev) by (exact (slice_prefix "/dev/" dev)).
  assert (S2 : slice_eq 8 "iscsi://" dev = String.prefix "iscsi://" dev) by (exact (slice_prefix "iscsi://" dev)).
  rewrite !S1, !S2. cbn [String.eqb Ascii.eqb Bool.eqb].
  repeat split.
  - intros H. rewrite H. cbn. destruct (has_sgio cfg); reflexivity.
  - intros H. assert (H' : String.prefix "/dev/" dev = false).
    { destruct (String.prefix "/dev/" dev) eqn:P; [|reflexivity]. apply not_both in P. congruence. }
    rewrite H', H. cbn. destruct (has_iscsi cfg); reflexivity.
  - intros H1 H2. rewrite H1, H2. reflexivity.
Qed.

(* constructing the device classes directly with a foreign path, or without the binding: refused, nothing opened *)
Theorem C19_constructor_guards : forall cfg dev rw iname,
  (String.prefix "/dev/" dev = false \/ has_sgio cfg = false -> new_scsi_device cfg dev rw = Raise NotImplementedError) /\
  (String.prefix "iscsi://" dev = false \/ has_iscsi cfg = false -> new_iscsi_device cfg dev iname = Raise NotImplementedError).
Proof.
  intros cfg dev rw iname. destruct C19_slices_are_prefixes as (_ & G1 & G2 & _ & _ & _).
  unfold new_scsi_device, new_iscsi_device, guard_passes. rewrite G1, G2.
  assert (S1 : slice_eq 5 "/dev/" dev = String.prefix "/dev/" dev) by (exact (slice_prefix "/dev/" dev)).
  assert (S2 : slice_eq 8 "iscsi://" dev = String.prefix "iscsi://" dev) by (exact (slice_prefix "iscsi://" dev)).
  rewrite S1, S2.
  split; intros [H|H]; rewrite H; try reflexivity; now rewrite andb_false_r.
Qed.

Example C19_example : init_device (mkCfg true false) "/dev/sg3" true "" = Ok (DSCSIDevice, [COpen "/dev/sg3" "w+b"]) /\
                      init_device (mkCfg true false) "iscsi://h/t/0" false "" = Raise NotImplementedError /\
                      init_device (mkCfg true true) "/dev" false "" = Raise NotImplementedError.
Proof. vm_compute. repeat split; reflexivity. Qed.
