(* Properties/C06.v — "Parameter data survives a build/parse round trip and read-modify-write".
   Which tables a class both encodes and decodes, and into what size of buffer, is REGENERATED from /repo
   (Gen/Builders.v: paired_tables); so are the list parameters of the decoders and the length stores of the builders. *)
From Coq Require Import String.
From PS Require Import Base.Bytes Base.Result Model.Converter Model.Parser Model.ParserInst Model.CorrUtil.
From PS Require Import Proofs.Codec Proofs.Layout Proofs.ParserProps Proofs.BuilderProps Proofs.RoundTrip.
From PS Require Import Gen.Tables Gen.Parsers Gen.Builders.
Open Scope string_scope.
Open Scope N_scope.

Definition pair_ok (tn : string * nat) : bool :=
  match lookup (fst tn) all_tables with Some L => wf_layout (snd tn) L | None => false end.

(* every table used in both directions is a well-formed layout of the buffer it is encoded into: distinct names,
   contiguous non-zero masks inside the buffer, pairwise disjoint fields *)
Theorem C06_paired_tables_well_formed :
  forallb pair_ok paired_tables = true /\ unsized_pairs = [] /\ (30 <= length paired_tables)%nat.
Proof. vm_compute. repeat split. repeat constructor. Qed.

Lemma pair_wf t n : In (t, n) paired_tables -> exists L, lookup t all_tables = Some L /\ wf_layout n L = true.
Proof.
  intros Hin. pose proof (proj1 C06_paired_tables_well_formed) as H. rewrite forallb_forall in H.
  specialize (H _ Hin). unfold pair_ok in H. cbn [fst snd] in H.
  destruct (lookup t all_tables) as [L|]; [|discriminate]. now exists L.
Qed.

(* dict -> bytes -> dict: for every valid value dictionary, decoding what was built returns the original values *)
Theorem C06_parse_inverts_build : forall t n, In (t, n) paired_tables ->
  exists L, lookup t all_tables = Some L /\
    forall d, valid_dict n L d = true ->
    exists r, encode_dict d L (zeros n) = Ok r /\ length r = n /\
      forall k f v, In (k, f) L -> In (k, v) d -> decode1 r f = Ok v.
Proof.
  intros t n Hin. destruct (pair_wf t n Hin) as (L & Hl & Hwf). exists L. split; [assumption|]. intros d Hvd.
  destruct (valid_dict_parts _ _ _ Hvd) as (_ & Hvals).
  destruct (encode_dict_bits n L d (zeros n) (zeros_length n) (bytes_ok_zeros n) Hvals) as (r & E & Lr & _ & _).
  exists r. split; [assumption|]. split; [assumption|]. intros k f v Hk Hv.
  destruct (decode_encode_field n L d (zeros n) k f Hwf Hvd (zeros_length n) (bytes_ok_zeros n) Hk) as (r2 & E2 & _ & _ & Hdec & _).
  rewrite E in E2. inversion E2; subst r2. apply Hdec; [assumption|apply ba_to_int_zeros].
Qed.

(* bytes -> dict -> bytes: every canonical byte string (right length, bits outside the fields zero) is rebuilt
   byte for byte from what was decoded *)
Theorem C06_build_inverts_parse : forall t n, In (t, n) paired_tables ->
  exists L, lookup t all_tables = Some L /\
    forall b, length b = n -> bytes_ok b ->
      (forall j, (forall k f g, In (k, f) L -> geom_of n f = Some g -> in_field g j = false) -> N.testbit (ba_to_int b) j = false) ->
      exists d, decode_bits b L = Ok d /\ encode_dict d L (zeros n) = Ok b.
Proof.
  intros t n Hin. destruct (pair_wf t n Hin) as (L & Hl & Hwf). exists L. split; [assumption|].
  intros b Hb Ho Hz. exact (encode_decode n L b Hwf Hb Ho Hz).
Qed.

(* read-modify-write: changing one value changes only that field's bits *)
Theorem C06_read_modify_write : forall t n, In (t, n) paired_tables ->
  exists L, lookup t all_tables = Some L /\
    forall d k v' f g, valid_dict n L d = true -> valid_dict n L (set_val d k v') = true ->
      lookup k L = Some f -> geom_of n f = Some g ->
      exists r1 r2, encode_dict d L (zeros n) = Ok r1 /\ encode_dict (set_val d k v') L (zeros n) = Ok r2 /\
        length r1 = n /\ length r2 = n /\
        forall j, in_field g j = false -> N.testbit (ba_to_int r2) j = N.testbit (ba_to_int r1) j.
Proof.
  intros t n Hin. destruct (pair_wf t n Hin) as (L & Hl & Hwf). exists L. split; [assumption|].
  intros d k v' f g Hv Hv' Hk Hg. exact (rmw_only_that_field n L d k v' f g Hwf Hv Hv' Hk Hg).
Qed.

(* descriptor lists: the builders of GET LBA STATUS and REPORT LUNS data store their length field with the base the
   decoder adds back (regenerated on both sides), so a list of any number of descriptors is decoded to those descriptors *)
Definition list_pair_ok (un ma : string) : bool :=
  match lookup un list_parsers, lookup ma length_stores with
  | Some (p, _), Some (a, b, c) =>
      Nat.eqb a (lp_len_a p) && Nat.eqb b (lp_len_b p) && Nat.eqb c (lp_bias p) && Nat.ltb 0 (lp_stride p)
      && Nat.leb (lp_len_a p) (lp_len_b p) && Nat.leb (lp_len_b p) (lp_start p) && Nat.leb c (lp_start p)
  | _, _ => false
  end.

Theorem C06_list_pairs_agree :
  list_pair_ok "scsi_cdb_getlbastatus.GetLBAStatus.unmarshall_datain" "scsi_cdb_getlbastatus.GetLBAStatus.marshall_datain" = true /\
  list_pair_ok "scsi_cdb_report_luns.ReportLuns.unmarshall_datain" "scsi_cdb_report_luns.ReportLuns.marshall_datain" = true.
Proof. vm_compute. split; reflexivity. Qed.

Theorem C06_list_round_trip : forall un ma p tn a b c (descs : list bytes),
  list_pair_ok un ma = true -> lookup un list_parsers = Some (p, tn) -> lookup ma length_stores = Some (a, b, c) ->
  Forall (fun d => length d = lp_stride p) descs ->
  N.of_nat (lp_start p + lp_stride p * length descs - c) < 256 ^ N.of_nat (b - a) ->
  parse_list p (store_len (zeros (lp_start p) ++ concat descs)%list a b c) = Some descs.
Proof.
  intros un ma p tn a b c descs Hok Hp Hs Hd Hfit. unfold list_pair_ok in Hok. rewrite Hp, Hs in Hok.
  repeat (apply andb_prop in Hok; destruct Hok as [Hok ?]).
  repeat match goal with
         | E : Nat.eqb _ _ = true |- _ => apply Nat.eqb_eq in E
         | E : Nat.leb _ _ = true |- _ => apply Nat.leb_le in E
         | E : Nat.ltb _ _ = true |- _ => apply Nat.ltb_lt in E
         end.
  subst a b. apply list_round_trip; try assumption; try lia.
Qed.

(* non-vacuity: READ CAPACITY(16) data, bytes -> dict -> bytes *)
Example C06_example :
  match lookup "scsi_cdb_readcapacity16.ReadCapacity16._datain_bits" all_tables with
  | Some L => match decode_bits ([0; 0; 0; 2; 0; 0; 0; 99] ++ [0; 0; 2; 0] ++ [3; 0x21; 0x80; 5] ++ zeros 16)%list L with
              | Ok d => encode_dict d L (zeros 32)
              | Raise e => Raise e
              end
  | None => Raise KeyError
  end = Ok ([0; 0; 0; 2; 0; 0; 0; 99] ++ [0; 0; 2; 0] ++ [3; 0x21; 0x80; 5] ++ zeros 16)%list.
Proof. vm_compute. reflexivity. Qed.

(* ---------------------------------------------------------------------------------------------------------------------
   Both directions of a structure with a descriptor LIST, over the REGENERATED bodies of builder and decoder (Gen/PyFuncs.v) under the
   semantics of the small Python (Model/Py.v): GET LBA STATUS, any number of descriptors. *)
From Coq Require Import ZArith List.
From PS Require Import Model.Py Proofs.PyParsers Proofs.PyTotal Proofs.PyRoundTrip Proofs.PyRoundTrip2 Proofs.PyRoundTrip3 Proofs.PyBuilders Proofs.PyRoundTrip4 Proofs.PyRoundTrip5 Gen.PyFuncs.
Import ListNotations.

(* the builder: header whose PARAMETER DATA LENGTH counts what follows it, then one 16-byte descriptor per dictionary, in order *)
Theorem C06_py_getlbastatus_build : forall (all : list (list (String.string * value) * bytes)) f,
  Forall (fun p => encode_dict (fst p) T_gls (zeros 16) = Ok (snd p) /\ length (snd p) = 16%nat) all -> (1 <= f)%nat ->
  call_fun all_tables py_program f GLSM [PDict [("lbas", PList (map (fun p => gls_dict (fst p)) all))]]
  = Ok (PBytes (int_to_ba (N.of_nat (4 + 16 * length all)) 4 ++ zeros 4 ++ concat (map snd all))%list).
Proof. exact getlbastatus_build_exact. Qed.

(* build, then parse: every list of complete valid descriptor dictionaries comes back, whole and in order *)
Theorem C06_py_getlbastatus_parse_inverts_build : forall (dvs : list (list (String.string * value))) f,
  Forall (fun dv => valid_dict 16 T_gls dv = true /\ map fst dv = map fst T_gls) dvs ->
  (Z.of_nat (length dvs) <= 100000000)%Z -> (length dvs + 2 <= f)%nat ->
  exists built, call_fun all_tables py_program f GLSM [PDict [("lbas", PList (map gls_dict dvs))]] = Ok (PBytes built) /\
    call_fun all_tables py_program f GLS [PBytes built] = Ok (PDict [("lbas", PList (map gls_dict dvs))]).
Proof. exact getlbastatus_parse_inverts_build. Qed.

(* REPORT LUNS: the regenerated builder puts the LUNs in the order of the caller's LIST (whatever the keys are called: lun0 ... lun10 ...), with
   LUN LIST LENGTH = 8 per entry — for any number of entries; and decoding what was built from lun0 .. lun<n-1> returns exactly those entries *)
Theorem C06_py_reportluns_build : forall (all : list (String.string * N)) f, (1 <= f)%nat ->
  call_fun all_tables py_program f RLM [PDict [("luns", PList (map lun_entry all))]]
  = Ok (PBytes (int_to_ba (N.of_nat (8 * length all)) 4 ++ zeros 4 ++ concat (map (fun kv => int_to_ba (snd kv) 8) all))%list).
Proof. exact reportluns_build_exact. Qed.

Theorem C06_py_reportluns_parse_inverts_build : forall (vs : list N) f,
  Forall (fun v => v < 2 ^ 64) vs -> (Z.of_nat (length vs) <= 100000000)%Z -> (8 * length vs + 11 <= f)%nat ->
  exists built, call_fun all_tables py_program f RLM [PDict [("luns", PList (map lun_entry (numbered 0 vs)))]] = Ok (PBytes built) /\
    call_fun all_tables py_program f Proofs.PyTotal.RL [PBytes built] = Ok (PDict [("luns", PList (map lun_entry (numbered 0 vs)))]).
Proof. exact reportluns_parse_inverts_build. Qed.

(* READ CAPACITY(10) / (16): builder and decoder are each one table applied to the whole buffer (shape checked on the regenerated bodies by
   computation); decoding what was built from a complete valid dictionary returns it — an instance of one theorem about that shape *)
Theorem C06_py_readcapacity10_round_trip : forall (dv : list (String.string * value)) f, (1 <= f)%nat ->
  valid_dict 8 T_rc10 dv = true -> map fst dv = map fst T_rc10 ->
  exists built, call_fun all_tables py_program f "scsi_cdb_readcapacity10.ReadCapacity10.marshall_datain" [PDict (dict_of_decoded dv)] = Ok (PBytes built) /\
    call_fun all_tables py_program f "scsi_cdb_readcapacity10.ReadCapacity10.unmarshall_datain" [PBytes built] = Ok (PDict (dict_of_decoded dv)).
Proof. exact readcapacity10_round_trip. Qed.

Theorem C06_py_readcapacity16_round_trip : forall (dv : list (String.string * value)) f, (1 <= f)%nat ->
  valid_dict 32 T_rc16 dv = true -> map fst dv = map fst T_rc16 ->
  exists built, call_fun all_tables py_program f "scsi_cdb_readcapacity16.ReadCapacity16.marshall_datain" [PDict (dict_of_decoded dv)] = Ok (PBytes built) /\
    call_fun all_tables py_program f "scsi_cdb_readcapacity16.ReadCapacity16.unmarshall_datain" [PBytes built] = Ok (PDict (dict_of_decoded dv)).
Proof. exact readcapacity16_round_trip. Qed.

(* REPORT PRIORITY: descriptors that carry their own length (8 fixed bytes + a TransportID of ADDITIONAL LENGTH bytes).  The builder, for
   any number of dictionaries and any TransportID lengths: per dictionary the table fields, ADDITIONAL LENGTH := len(TransportID), the
   TransportID; PRIORITY PARAMETER DATA LENGTH := what follows *)
Theorem C06_py_reportpriority_build : forall (all : list rp_item) f, Forall rpi_ok all -> (1 <= f)%nat ->
  call_fun all_tables py_program f RPRIM [PDict [("priority_descriptors", PList (map rpi_dict all))]]
  = Ok (PBytes (int_to_ba (N.of_nat (length (concat (map rpi_bytes all)))) 4 ++ concat (map rpi_bytes all))%list).
Proof. exact reportpriority_build_exact. Qed.

(* and decoding what was built returns the dictionaries and their TransportIDs, whole and in order *)
Theorem C06_py_reportpriority_parse_inverts_build : forall (items : list (list (String.string * value) * bytes)) f,
  Forall rp_item_ok items ->
  (Z.of_nat (fold_right (fun it acc => (8 + length (snd it) + acc)%nat) 0%nat items) < 4294967296)%Z -> (length items + 2 <= f)%nat ->
  exists built, call_fun all_tables py_program f RPRIM [PDict [("priority_descriptors", PList (map rp_item_dict items))]] = Ok (PBytes built) /\
    call_fun all_tables py_program f RPRI [PBytes built] = Ok (PDict [("priority_descriptors", PList (map rp_item_dict items))]).
Proof. exact reportpriority_parse_inverts_build. Qed.

(* the hypotheses are satisfiable: a descriptor with a 3-byte TransportID *)
Example C06_py_reportpriority_item : rp_item_ok ([("current_priority", VI 5); ("rtpi", VI 258); ("adlen", VI 3)], [1; 2; 3]).
Proof. repeat split; try reflexivity. right; right; left; reflexivity. Qed.

(* REPORT TARGET PORT GROUPS: a list of groups, each with its own list of ports — two nested loops in the builder and in the decoder.  The
   builder, for any number of groups and of ports per group (length-only header format) *)
Theorem C06_py_rtpg_build : forall (all : list tg_item) (ft : list (String.string * pv)) f, Forall tgi_ok all -> (1 <= f)%nat ->
  ft = [] \/ ft = [("format_type", PInt 0)] ->
  call_fun all_tables py_program f RTPGM [PDict (ft ++ [("target_port_group_descriptors", PList (map tgi_dict all))])%list]
  = Ok (PBytes (int_to_ba (N.of_nat (length (concat (map tgi_bytes all)))) 4 ++ concat (map tgi_bytes all))%list).
Proof. exact rtpg_build_exact. Qed.

(* and decoding what was built returns exactly what the decoder reports for such a response: FORMAT TYPE 0, the groups with their fields and
   their ports, whole and in order *)
Theorem C06_py_rtpg_parse_inverts_build : forall (groups : list (list (String.string * value) * list N)) f,
  Forall tg_group_ok groups ->
  (Z.of_nat (fold_right (fun g acc => (8 + 4 * length (snd g) + acc)%nat) 0%nat groups) < 4294967296)%Z ->
  (2 * fold_right (fun g acc => (8 + 4 * length (snd g) + acc)%nat) 0%nat groups + 4 <= f)%nat ->
  exists built,
    call_fun all_tables py_program f RTPGM [PDict [("format_type", PInt 0); ("target_port_group_descriptors", PList (map tg_group_dict groups))]] = Ok (PBytes built) /\
    call_fun all_tables py_program f RTPG [PBytes built] = Ok (PDict [("format_type", PInt 0); ("target_port_group_descriptors", PList (map tg_group_dict groups))]).
Proof. exact rtpg_parse_inverts_build. Qed.

Example C06_py_rtpg_group : tg_group_ok
  ([("asymmetric_access_state", VI 1); ("pref", VI 1); ("ao_sup", VI 1); ("an_sup", VI 0); ("s_sup", VI 1); ("u_sup", VI 0); ("o_sup", VI 1);
    ("t_sup", VI 0); ("target_port_group", VI 258); ("status_code", VI 2); ("vendor", VI 0); ("target_port_count", VI 2)], [1; 513]).
Proof.
  repeat split; try reflexivity.
  - do 11 right. left. reflexivity.
  - repeat constructor.
Qed.

(* the same with the extended header (FORMAT TYPE 1): the four header bytes are what encode_dict makes of the two header fields, and FORMAT
   TYPE and IMPLICIT TRANSITION TIME come back with the groups *)
Theorem C06_py_rtpg_parse_inverts_build_extended : forall (groups : list (list (String.string * value) * list N)) (itt : N) f,
  Forall tg_group_ok groups -> itt < 256 ->
  (Z.of_nat (4 + fold_right (fun g acc => (8 + 4 * length (snd g) + acc)%nat) 0%nat groups) < 4294967296)%Z ->
  (2 * fold_right (fun g acc => (8 + 4 * length (snd g) + acc)%nat) 0%nat groups + 4 <= f)%nat ->
  exists built,
    call_fun all_tables py_program f RTPGM
      [PDict [("format_type", PInt 1); ("implicit_transition_time", PInt (Z.of_N itt)); ("target_port_group_descriptors", PList (map tg_group_dict groups))]] = Ok (PBytes built) /\
    call_fun all_tables py_program f RTPG [PBytes built] =
      Ok (PDict [("format_type", PInt 1); ("implicit_transition_time", PInt (Z.of_N itt)); ("target_port_group_descriptors", PList (map tg_group_dict groups))]).
Proof. exact rtpg_parse_inverts_build_extended. Qed.

(* TransportIDs of the fixed 24-byte kinds, builder and decoder over the regenerated bodies: the decoder returns exactly the dictionary the
   TransportID was built from — Fibre Channel (N_PORT NAME at bytes 8..15) and SAS (SAS ADDRESS at bytes 4..11), every 8-byte name *)
Theorem C06_py_transport_id_fc_round_trip : forall (name : bytes) f, length name = 8%nat -> (1 <= f)%nat ->
  exists built, call_fun all_tables py_program f MTI [tid_dict 0 "n_port_name" name] = Ok (PBytes built) /\ length built = 24%nat /\
    tid_decodes built (tid_dict 0 "n_port_name" name).
Proof. exact transport_id_fc_round_trip. Qed.

Theorem C06_py_transport_id_sas_round_trip : forall (name : bytes) f, length name = 8%nat -> (1 <= f)%nat ->
  exists built, call_fun all_tables py_program f MTI [tid_dict 6 "sas_address" name] = Ok (PBytes built) /\ length built = 24%nat /\
    tid_decodes built (tid_dict 6 "sas_address" name).
Proof. exact transport_id_sas_round_trip. Qed.

(* ... and the other three fixed 24-byte kinds: SBP (EUI-64 NAME, bytes 8..15), SRP (INITIATOR PORT IDENTIFIER, 16 bytes at 8..23) and
   SOP (ROUTING ID, bytes 4..11) — with them every TransportID kind of fixed size round-trips, for every name *)
Theorem C06_py_transport_id_sbp_srp_sop_round_trip : forall (n8 n16 : bytes) f, length n8 = 8%nat -> length n16 = 16%nat -> (1 <= f)%nat ->
  (exists built, call_fun all_tables py_program f MTI [tid_dict 3 "eui64_name" n8] = Ok (PBytes built) /\ length built = 24%nat /\
     tid_decodes built (tid_dict 3 "eui64_name" n8)) /\
  (exists built, call_fun all_tables py_program f MTI [tid_dict 4 "initiator_port_identifier" n16] = Ok (PBytes built) /\ length built = 24%nat /\
     tid_decodes built (tid_dict 4 "initiator_port_identifier" n16)) /\
  (exists built, call_fun all_tables py_program f MTI [tid_dict 10 "routing_id" n8] = Ok (PBytes built) /\ length built = 24%nat /\
     tid_decodes built (tid_dict 10 "routing_id" n8)).
Proof.
  intros n8 n16 f H8 H16 Hf. split; [|split].
  - exact (transport_id_sbp_round_trip n8 f H8 Hf).
  - exact (transport_id_srp_round_trip n16 f H16 Hf).
  - exact (transport_id_sop_round_trip n8 f H8 Hf).
Qed.

(* the iSCSI TransportID (TPID format 00b): for every ASCII name that does not end in a NUL character, the decoder reports protocol 5,
   format 0 and exactly that name, whatever follows the TransportID in the buffer (the padding NULs are stripped, the name is not cut) *)
Theorem C06_py_iscsi_transport_id_round_trip : forall (s : String.string) (name : bytes) f,
  bytes_of_string s = Some name -> rstrip_nul name = name -> (Z.of_nat (length name) <= 65000)%Z -> (2 <= f)%nat ->
  exists built, call_fun all_tables py_program f MTI [PDict [("protocol_id", PInt 5); ("iscsi_name", PStr s)]] = Ok (PBytes built) /\
    forall rest, call_with py_program (run all_tables py_program f) UTID [PBytes (built ++ rest)%list] =
      Ok (PDict [("tpid_format", PInt 0); ("protocol_id", PInt 5); ("iscsi_name", PStr s)]).
Proof. exact iscsi_tid0_round_trip. Qed.

Example C06_py_iscsi_name_ok : exists name, bytes_of_string "iqn.1993-08.org.debian:01:90c27cf89279" = Some name /\ rstrip_nul name = name.
Proof. eexists. split; reflexivity. Qed.
