(* Properties/C16.v — "Attaching to a device selects the command set of its peripheral device type".
   The decision table of __init_opcode, the INQUIRY data table and the opcode sets are REGENERATED. *)
From Coq Require Import String.
From PS Require Import Base.Bytes Base.Result Model.Converter Model.Ctor Model.Facade Model.Attach Model.CorrUtil.
From PS Require Import Gen.Tables Gen.Opcodes Gen.Ctors Gen.FacadeTbl Spec.SAM Proofs.Opcodes Proofs.FacadeProps Proofs.AttachProps Proofs.SenseProps.
Open Scope string_scope.
Open Scope N_scope.

Theorem C16_nothing_skipped : match unknown_facade with [] => true | _ => false end = true.
Proof. vm_compute. reflexivity. Qed.

(* all 32 device types x every command set the device object may currently carry *)
Theorem C16_type_map : forall t cur, t < 32 -> In cur set_names ->
  primary_ok (select t cur) = true /\ forall want, cmdset_of_type t = Some want -> select t cur = want.
Proof. apply map_sound. vm_compute. reflexivity. Qed.

(* the device type is bits 4:0 of byte 0 of the standard INQUIRY data: the peripheral qualifier never leaks into it *)
Theorem C16_type_field : forall data,
  lookup "peripheral_device_type" T_scsi_cdb_inquiry__Inquiry___datain_bits = Some (Mask 31 0) /\
  decode1 data (Mask 31 0) = Ok (VI (N.land (nth 0 data 0) 31)).
Proof.
  intros data. split; [vm_compute; reflexivity|].
  rewrite (decode1_byte data 31 0 0 ltac:(lia) eq_refl). now rewrite N.shiftr_0_r.
Qed.

(* every selectable set offers the primary commands with their T10 codes *)
Theorem C16_primary : forall s, In s set_names -> primary_ok s = true.
Proof.
  assert (H : forallb primary_ok set_names = true) by (vm_compute; reflexivity).
  intros s Hs. rewrite forallb_forall in H. now apply H.
Qed.

(* attaching issues exactly one command: the facade's own inquiry() with its defaults, a standard INQUIRY (EVPD = 0) *)
Theorem C16_one_inquiry :
  well_shaped (f_acts F_inquiry) = true /\
  lookup "evpd" (f_params F_inquiry) = Some (Some (CInt 0)) /\ lookup "page_code" (f_params F_inquiry) = Some (Some (CInt 0)) /\
  match f_acts F_inquiry with ALookup "INQUIRY" :: _ => true | _ => false end = true.
Proof. vm_compute. repeat split; reflexivity. Qed.

(* any history of attaches over several device objects: the device attached last carries the set of the type IT
   reported (for the recognised types), independent of everything before; other devices keep their sets *)
Theorem C16_history : forall devs h i b want,
  (i < length (attach_all devs h))%nat -> In (nth i (attach_all devs h) "spc") set_names ->
  cmdset_of_type (N.land b 31) = Some want ->
  nth i (attach (attach_all devs h) i b) "spc" = want /\
  forall j, j <> i -> nth j (attach (attach_all devs h) i b) "spc" = nth j (attach_all devs h) "spc".
Proof.
  intros devs h i b want Hi Hin Hw. unfold attach. split.
  - rewrite nth_set_nth_same by assumption.
    exact (proj2 (C16_type_map _ _ (land31_lt b) Hin) want Hw).
  - intros j Hj. apply nth_set_nth_other. congruence.
Qed.

Example C16_example : attach_all ["spc"; "spc"; "spc"] [(0%nat, 5); (1%nat, 8 + 32); (0%nat, 0); (2%nat, 3)]
                      = ["sbc"; "smc"; "spc"].
Proof. vm_compute. reflexivity. Qed.
