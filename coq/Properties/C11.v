(* Properties/C11.v — "Decoding device data always terminates, whatever the bytes".
   Every loop of every response / sense decoder is REGENERATED as a skeleton (loop variable, bytes consumed per
   iteration); a loop whose every iteration consumes at least one byte makes at most len(buffer) iterations,
   for all byte strings and whatever else the body computes (no bound). `for` loops range over a slice of the
   buffer, a caller-given range or a dictionary. *)
From Coq Require Import String.
From PS Require Import Base.Bytes Base.Result Model.Loops Model.Converter Gen.Loops Proofs.Termination.
Open Scope string_scope.

Theorem C11_nothing_skipped : unknown_loops = [] /\ (8 <= length loops)%nat.
Proof. vm_compute. split; [reflexivity|repeat constructor]. Qed.

(* every decoder loop advances by at least one byte per iteration *)
Theorem C11_all_strides_positive : forall name v s, In (name, v, s) loops -> stride_ok s = true.
Proof.
  assert (H : forallb (fun l : string * string * stride => stride_ok (snd l)) loops = true) by (vm_compute; reflexivity).
  intros name v s Hin. rewrite forallb_forall in H. exact (H _ Hin).
Qed.

(* hence each of them terminates within len(buffer) iterations on every buffer: linear work, no unbounded growth *)
Theorem C11_terminates : forall name v s, In (name, v, s) loops ->
  forall (A : Type) (e : bytes -> A -> N) (upd : bytes -> A -> A) (d : bytes) (a : A),
  exists r n, loop A (skeleton_body s e upd) (length d) d a = Some (r, n) /\ (n <= length d)%nat.
Proof. intros name v s Hin A e upd d a. apply skeleton_terminates. eapply C11_all_strides_positive; eassumption. Qed.

(* the only other loops iterate over a slice of the buffer, a caller-supplied range, or a dictionary *)
Theorem C11_for_loops_bounded : forall name kind, In (name, kind) for_loops ->
  kind = "buffer" \/ kind = "range" \/ kind = "dict".
Proof.
  assert (H : forallb (fun l : string * string => String.eqb (snd l) "buffer" || String.eqb (snd l) "range" || String.eqb (snd l) "dict") for_loops = true)
    by (vm_compute; reflexivity).
  intros name kind Hin. rewrite forallb_forall in H. specialize (H _ Hin). cbn [snd] in H.
  apply orb_prop in H as [H|H]; [apply orb_prop in H as [H|H]|]; apply String.eqb_eq in H; auto.
Qed.

(* what a zero stride means: the skeleton loop with stride 0 never finishes on a non-empty buffer *)
Example C11_zero_stride_diverges : loop unit (skeleton_body (SData "x") (fun _ _ => 0%N) (fun _ a => a)) 1000 [1%N] tt = None.
Proof. vm_compute. reflexivity. Qed.

(* ---------------------------------------------------------------------------------------------------------------------
   The same for the REGENERATED decoder bodies themselves (Gen/PyFuncs.v under Model/Py.v), on EVERY byte string: the decoder returns a
   value — it neither raises nor runs out of fuel — with fuel len(data) + 3 (one unit per loop iteration / call): work proportional to
   the buffer whatever the bytes, and the result is spelled out (the successive 16- / 8-byte pieces of the announced part). *)
From Coq Require Import ZArith List Lia.
From PS Require Import Model.Py Proofs.PyLemmas Proofs.PyParsers Proofs.PyTotal Proofs.PyTotal2 Proofs.PyParsersRES Proofs.PyTotal3 Gen.Tables Gen.PyFuncs.
Import ListNotations.

Theorem C11_py_getlbastatus_every_input : forall (data : bytes) f, (length data + 3 <= f)%nat ->
  let announced := py_slice data (Some 8%Z) (Some (Z.of_N (ba_to_int (py_slice data None (Some 4%Z))) + 4)%Z) in
  call_fun all_tables py_program f GLS [PBytes data] = Ok (PDict [("lbas", PList (map gls_desc (chunks (length announced) 16 announced)))]).
Proof. exact getlbastatus_total. Qed.

Theorem C11_py_read_keys_every_input : forall (data : bytes) f, (length data + 3 <= f)%nat ->
  let announced := py_slice data (Some 8%Z) (Some (Z.of_N (ba_to_int (py_slice data (Some 4%Z) (Some 8%Z))) + 8)%Z) in
  call_fun all_tables py_program f PRK [PBytes data] =
  Ok (PDict [("pr_generation", PInt (Z.of_N (ba_to_int (py_slice data None (Some 4%Z)))));
             ("reservation_keys", PList (map prk_key (chunks (length announced) 8 announced)))]).
Proof. exact read_keys_total. Qed.

Theorem C11_py_reportluns_every_input : forall (data : bytes) f, (length data + 3 <= f)%nat ->
  let announced := py_slice data (Some 8%Z) (Some (Z.of_N (ba_to_int (py_slice data None (Some 4%Z))) + 8)%Z) in
  call_fun all_tables py_program f RL [PBytes data] = Ok (PDict [("luns", PList (rl_entries 0 (chunks (length announced) 8 announced)))]).
Proof. exact reportluns_total. Qed.

(* READ CAPACITY(10) / (16): no loop at all — one table applied to whatever bytes arrived (short buffers read as zeros) *)
Theorem C11_py_readcapacity_every_input : forall (data : bytes) f, (1 <= f)%nat ->
  call_fun all_tables py_program f "scsi_cdb_readcapacity10.ReadCapacity10.unmarshall_datain" [PBytes data] = Ok (PDict (dict_of_decoded (decode_total data T_rc10))) /\
  call_fun all_tables py_program f "scsi_cdb_readcapacity16.ReadCapacity16.unmarshall_datain" [PBytes data] = Ok (PDict (dict_of_decoded (decode_total data T_rc16))).
Proof. intros data f Hf. split; [now apply readcapacity10_total|now apply readcapacity16_total]. Qed.

(* descriptors that carry their own length: the stride of the loop is read from the buffer.  REPORT PRIORITY: whatever ADDITIONAL LENGTH
   says (zero, or past the end), each iteration consumes at least the 8 fixed bytes; the result is spelled out from the successive
   remainders of the announced part *)
Theorem C11_py_reportpriority_every_input : forall (data : bytes) f, (length data + 3 <= f)%nat ->
  let announced := py_slice data (Some 4%Z) (Some (Z.of_N (ba_to_int (py_slice data None (Some 4%Z))) + 4)%Z) in
  call_fun all_tables py_program f RPRI [PBytes data] =
  Ok (PDict [("priority_descriptors", PList (map rp_desc (rp_suffixes (length announced) announced)))]).
Proof. exact reportpriority_total. Qed.

(* REPORT TARGET PORT GROUPS: two nested loops, the inner one bounded by a count read from the buffer AND by the bytes that remain; on
   every byte string the decoder returns, within 2 len + 4 units of fuel, the header fields and one entry per group remainder *)
Theorem C11_py_rtpg_every_input : forall (data : bytes) f, (2 * length data + 4 <= f)%nat ->
  let announced := py_slice data (Some 4%Z) (Some (Z.of_N (ba_to_int (py_slice data None (Some 4%Z))) + 4)%Z) in
  let body := snd (rtpg_header announced) in
  call_fun all_tables py_program f RTPG [PBytes data] =
  Ok (PDict (fst (rtpg_header announced) ++ [("target_port_group_descriptors", PList (map tg_desc (tg_suffixes (length body) body)))])%list).
Proof. exact rtpg_total. Qed.

(* the number of entries is bounded by the buffer: no amplification *)
Theorem C11_py_rtpg_linear : forall (body : bytes),
  (length (tg_suffixes (length body) body) <= length body)%nat /\
  forall R, (length (tg_ports R) <= length R)%nat.
Proof.
  intros body. split; [apply tg_suffixes_length|]. intros R. unfold tg_ports.
  pose proof (port_suffixes_length (Z.to_nat (tg_count R)) (skipn 8 R)) as H. rewrite skipn_length in H.
  eapply Nat.le_trans; [exact H|]. apply Nat.le_sub_l.
Qed.


(* READ ELEMENT STATUS — the most intricate decoder: a loop over element status pages (stride 8 + BYTE COUNT OF DESCRIPTOR DATA AVAILABLE, read
   from the page), inside it a loop over element descriptors (stride ELEMENT DESCRIPTOR LENGTH, read from the page; the loop stops when that
   is zero), five conditional parts per descriptor.  On EVERY byte string the regenerated body returns a value — it neither raises nor runs
   out of fuel — within 2 len(data) + 4 units of fuel.  Proved with invariants that only say which variables hold bytes / dictionaries /
   lists, and the unconsumed remainder as a decreasing measure in each loop (Proofs/PyTotal3.v, generic rule while_measure) *)
Theorem C11_py_readelementstatus_every_input : forall (data : bytes) f, (2 * length data + 4 <= f)%nat ->
  exists v, call_fun all_tables py_program f RES [PBytes data] = Ok v.
Proof. exact readelementstatus_total. Qed.

(* in particular: never the exception of a loop that does not end, for any bytes *)
Theorem C11_py_no_divergence : forall (data : bytes),
  call_fun all_tables py_program (length data + 3) GLS [PBytes data] <> Raise Diverges /\
  call_fun all_tables py_program (length data + 3) PRK [PBytes data] <> Raise Diverges.
Proof.
  intros data. split.
  - rewrite (getlbastatus_total data (length data + 3) (le_n _)). discriminate.
  - rewrite (read_keys_total data (length data + 3) (le_n _)). discriminate.
Qed.

(* all the loop-carrying decoders treated above, in one statement: on EVERY byte string, with fuel 2 len(data) + 4 (one unit per loop
   iteration or call), each returns a value — none raises, none runs out of fuel *)
Theorem C11_py_loop_decoders_return_on_every_input : forall (data : bytes),
  let f := (2 * length data + 4)%nat in
  (exists v, call_fun all_tables py_program f GLS [PBytes data] = Ok v) /\
  (exists v, call_fun all_tables py_program f PRK [PBytes data] = Ok v) /\
  (exists v, call_fun all_tables py_program f RL [PBytes data] = Ok v) /\
  (exists v, call_fun all_tables py_program f RPRI [PBytes data] = Ok v) /\
  (exists v, call_fun all_tables py_program f RTPG [PBytes data] = Ok v) /\
  (exists v, call_fun all_tables py_program f RES [PBytes data] = Ok v).
Proof.
  intros data f. unfold f.
  assert (H3 : (length data + 3 <= 2 * length data + 4)%nat) by (clear; generalize (length data); intros n; Lia.lia).
  repeat split.
  - eexists. exact (getlbastatus_total data _ H3).
  - eexists. exact (read_keys_total data _ H3).
  - eexists. exact (reportluns_total data _ H3).
  - eexists. exact (reportpriority_total data _ H3).
  - eexists. exact (rtpg_total data _ (le_n _)).
  - exact (readelementstatus_total data _ (le_n _)).
Qed.
