(* Properties/C08.v — "Sense data is always decodable and printable, with the right key/ASC/ASCQ".
   Over the format dispatch, lookup forms and tables REGENERATED from scsi_sense.py: for EVERY non-empty
   byte string (any length, any content) the CheckCondition error is constructed and described without
   raising; sense key, ASC and ASCQ are the bytes at the positions SPC-4 defines for the format (absent
   bytes read as 0); a subset of the T10 ASC/ASCQ texts is checked entry by entry. *)
From Coq Require Import String.
From PS Require Import Base.Bytes Base.Result Model.Converter Model.Sense.
From PS Require Import Proofs.SenseProps Gen.Tables Gen.SenseTables Gen.Misc Spec.SenseFmt.
Open Scope string_scope.
Open Scope N_scope.

Theorem C08_total : forall s, s <> [] -> exists c d, sense_new s = Ok c /\ describe c = Ok d.
Proof. apply sense_total. vm_compute. reflexivity. Qed.

Theorem C08_positions :
  forall codes kb ab qb, In (codes, kb, ab, qb) sense_positions ->
  forall b0 s', In (N.land b0 127) codes ->
  exists c, sense_new (b0 :: s') = Ok c /\
    lookup "sense_key" (cc_data c) = Some (VI (N.land (nth (N.to_nat kb) (b0 :: s') 0) 15)) /\
    cc_asc c = Some (nth (N.to_nat ab) (b0 :: s') 0 mod 256) /\
    cc_ascq c = Some (nth (N.to_nat qb) (b0 :: s') 0 mod 256).
Proof. apply sense_positions_sound. vm_compute. reflexivity. Qed.

(* the T10 texts of the well-known codes, up to letter case (partial: a subset of the asc-num list) *)
Theorem C08_texts : forall code text, In (code, text) t10_asc_subset ->
  exists t, lookupN code sense_ascq_dict = Some t /\ upper t = upper text.
Proof.
  assert (H : texts_ok = true) by (vm_compute; reflexivity).
  intros code text Hin. unfold texts_ok in H. rewrite forallb_forall in H. specialize (H _ Hin). cbn [fst snd] in H.
  destruct (lookupN code sense_ascq_dict) as [t|]; [|discriminate]. apply String.eqb_eq in H. eauto.
Qed.

(* ... and that text is what the error prints for the code, whatever range its qualifier lies in (5Dh/FFh, 40h/00h) *)
Theorem C08_described_by_t10_text : forall code text, In (code, text) t10_asc_subset ->
  exists t, describe_ascq (code / 256) (code mod 256) = Ok t /\ upper t = upper text.
Proof.
  assert (H : described_ok = true) by (vm_compute; reflexivity).
  intros code text Hin. unfold described_ok in H. rewrite forallb_forall in H. specialize (H _ Hin). cbn [fst snd] in H.
  destruct (describe_ascq (code / 256) (code mod 256)) as [t|]; [|discriminate]. apply String.eqb_eq in H. eauto.
Qed.

(* non-vacuity: a one-byte deferred descriptor-format buffer, and a 2-byte fixed one *)
Example C08_example_short : exists c d, sense_new [115] = Ok c /\ describe c = Ok d.
Proof. apply C08_total. discriminate. Qed.
