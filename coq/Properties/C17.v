(* Properties/C17.v — "Invalid requests are refused before anything is sent" (constructor part).
   On the constructor IR REGENERATED from the source: the block-transfer classes refuse a zero block
   size with MissingBlocksizeException before anything is constructed, for all other arguments; no
   constructor returns a command for an operation code without a fixed CDB length (all 256 codes);
   ATA PASS-THROUGH block transfers without a block size are refused (SAT flag sweep).
   The facade / marshaller refusals (PERSISTENT RESERVE IN service action, EXTENDED COPY keys and
   codes, TransportID consistency, nothing sent) are in the facade and parameter-list models. *)
From Coq Require Import String.
From PS Require Import Base.Bytes Base.Result Model.Converter Model.Command Model.Ctor Model.InitCdb Model.CorrUtil.
From PS Require Import Proofs.CtorSound Proofs.CdbSpec Proofs.CtorBuffers Proofs.Ata Proofs.Opcodes.
From PS Require Import Spec.SAM Spec.CdbFormats Gen.Tables Gen.Ctors Model.Facade Proofs.FacadeState Gen.FacadeTbl.
Open Scope string_scope.
Open Scope N_scope.

Definition guard_ok (key : string) : bool :=
  match lookup key all_ctors with
  | Some c => match blocksize_guard c with Some cnd => is_bs_zero cnd | None => false end
  | None => false
  end.
Definition guard_unless_ok (kf : string * string) : bool :=
  match lookup (fst kf) all_ctors with
  | Some c => match blocksize_guard c with Some cnd => is_bs_zero_unless (snd kf) cnd | None => false end
  | None => false
  end.

Theorem C17_guards_present :
  forallb guard_ok needs_blocksize = true /\ forallb guard_unless_ok needs_blocksize_unless = true.
Proof. vm_compute. split; reflexivity. Qed.

(* READ/WRITE(10/12/16), WRITE SAME(10): block size 0 is refused, whatever the other arguments *)
Theorem C17_blocksize : forall key c, In key needs_blocksize -> lookup key all_ctors = Some c ->
  forall ext op G pos kw ρ0, bind_args c pos kw = Ok ρ0 -> lookup "blocksize" ρ0 = Some (CInt 0) ->
    run_ctor ext op c init_cdb G pos kw = (G, Raise MissingBlocksize).
Proof.
  intros key c Hin Hl ext op G pos kw ρ0 Hb Hz.
  destruct C17_guards_present as [H _]. rewrite forallb_forall in H. specialize (H _ Hin).
  unfold guard_ok in H. rewrite Hl in H. destruct (blocksize_guard c) as [cnd|] eqn:Hg; [|discriminate].
  eapply blocksize_refused; eassumption.
Qed.

(* WRITE SAME(16): refused unless NDOB is set *)
Theorem C17_blocksize_writesame16 : forall key flag c, In (key, flag) needs_blocksize_unless -> lookup key all_ctors = Some c ->
  forall ext op G pos kw ρ0 fv, bind_args c pos kw = Ok ρ0 -> lookup "blocksize" ρ0 = Some (CInt 0) ->
    lookup flag ρ0 = Some fv -> truthy fv = false ->
    run_ctor ext op c init_cdb G pos kw = (G, Raise MissingBlocksize).
Proof.
  intros key flag c Hin Hl ext op G pos kw ρ0 fv Hb Hz Hf Ht.
  destruct C17_guards_present as [_ H]. rewrite forallb_forall in H. specialize (H _ Hin).
  unfold guard_unless_ok in H. cbn [fst snd] in H. rewrite Hl in H.
  destruct (blocksize_guard c) as [cnd|] eqn:Hg; [|discriminate].
  eapply blocksize_refused_unless; eassumption.
Qed.

(* an operation code in a variable-length, reserved or vendor group (SAM): no constructor returns a command *)
Definition has_shape (kc : string * ctor) : bool :=
  match shape_of (c_body (snd kc)) with Some sh => shape_ok sh | None => false end.
Theorem C17_all_shapes : forallb has_shape all_ctors = true.
Proof. vm_compute. reflexivity. Qed.

Theorem C17_opcode_refused : forall key c v, In (key, c) all_ctors -> v < 256 -> cdb_len_of_opcode v = None ->
  init_cdb v = Raise OpcodeException /\
  forall ext sa G pos kw G' cm, run_ctor ext (mkOp v sa) c init_cdb G pos kw <> (G', Ok cm).
Proof.
  intros key c v Hin Hv Hnone.
  pose proof (len_sound eq_refl v Hv) as L. rewrite Hnone in L. split; [exact L|].
  intros ext sa G pos kw G' cm.
  pose proof C17_all_shapes as H. rewrite forallb_forall in H. specialize (H _ Hin). unfold has_shape in H. cbn [snd] in H.
  destruct (shape_of (c_body c)) as [sh|] eqn:Hsh; [|discriminate].
  eapply opcode_never_ok; [eassumption|exact H|]. cbn [op_value]. exact L.
Qed.

(* ATA PASS-THROUGH: BYT_BLOK = 1, T_TYPE = 1, T_LENGTH <> 0 without a block size is refused (flag sweep, C03) *)
Definition ata_refused (c : ctor) (opv : N) (f : ata_flags) : bool :=
  match snd (run_ctor (fun _ _ => Ok (CInt 0)) (mkOp opv []) c init_cdb G0 [] (ata_kw f)) with
  | Raise MissingBlocksize => true
  | _ => false
  end.
Definition ata_refusals_ok (c : ctor) (opv : N) : bool :=
  forallb (fun f => match ata_expected f with None => ata_refused c opv f | Some _ => true end) all_flags.

Theorem C17_ata_blocksize : forall f, In f all_flags -> ata_expected f = None ->
  ata_refused C_scsi_cdb_atapassthrough16__ATAPassThrough16 133 f = true /\
  ata_refused C_scsi_cdb_atapassthrough12__ATAPassThrough12 161 f = true.
Proof.
  assert (A : ata_refusals_ok C_scsi_cdb_atapassthrough16__ATAPassThrough16 133 = true) by (vm_compute; reflexivity).
  assert (B : ata_refusals_ok C_scsi_cdb_atapassthrough12__ATAPassThrough12 161 = true) by (vm_compute; reflexivity).
  intros f Hf He. unfold ata_refusals_ok in A, B. rewrite forallb_forall in A, B.
  specialize (A f Hf). specialize (B f Hf). rewrite He in A, B. split; assumption.
Qed.

(* THE FACADE'S BLOCK SIZE IS THE ONE STORED LAST.  The stores every function of class SCSI performs on the facade
   object are REGENERATED; for every sequence of attach / re-attach / block-size stores / command calls, the block size
   the command methods hand to the constructors (FBlocksize) is the value stored last — so a block size that was
   cleared (set to 0) reaches the constructor as 0 and the request is refused by C17_blocksize. *)
Theorem C17_facade_state_side_condition : blocksize_state_ok facade_state_writes facade_blocksize_get = true.
Proof. vm_compute. reflexivity. Qed.

Theorem C17_facade_blocksize_is_last_stored : forall ops st, forallb op_ok ops = true ->
  blocksize_seen facade_blocksize_get (fold_left (fstep facade_state_writes) ops st) =
  last_blocksize (blocksize_seen facade_blocksize_get st) ops.
Proof. exact (blocksize_is_last_stored _ _ C17_facade_state_side_condition). Qed.

Example C17_example_cleared_blocksize :
  blocksize_seen facade_blocksize_get
    (fold_left (fstep facade_state_writes) [FoInit CNone (CInt 512); FoMethod "read10"; FoCall CNone; FoSetBlocksize (CInt 0); FoMethod "inquiry"] []) =
  Some (CInt 0).
Proof. vm_compute. reflexivity. Qed.

(* PERSISTENT RESERVE IN through the facade: the method is REGENERATED as  look the operation code up; `if service_action ==
   opcode.serviceaction.X: cmd = Cls(...) elif ... else: raise ValueError(...)`; execute; unmarshall; return  — the translator emits
   AConstructBySA only for exactly that chain ending in `else: raise ValueError`, anything else (a table indexed by the value, a
   dictionary lookup with a default, a different exception) is an AUnknownAction and fails this theorem.  So a value that is none of
   the four service actions, of whatever type or sign, raises ValueError before a command exists, and nothing is executed. *)
Theorem C17_prin_dispatch_is_a_closed_chain :
  match f_acts F_persistentreservein with
  | [ALookup "PERSISTENT_RESERVE_IN"; AConstructBySA bs; AExecute false; AUnmarshall _ _; AReturn] =>
      map (fun b => (fst (fst b), snd (fst b))) bs
  | _ => []
  end = [("service_action", "READ_KEYS"); ("service_action", "READ_RESERVATION"); ("service_action", "REPORT_CAPABILITIES"); ("service_action", "READ_FULL_STATUS")].
Proof. vm_compute. reflexivity. Qed.
