(* Properties/C01.v — "Every CDB the library builds has the standard's wire format".
   For every one of the 42 command classes (constructor IR and mask table REGENERATED from the
   source on this run) and ALL argument values: if the constructor returns, the CDB has the SAM
   length of its operation code and a standards-conformant target reading each field at the
   standard's byte/bit position (Spec/CdbFormats.v) recovers the caller's argument, the operation
   code, the T10 service action; every other bit is zero. *)
From Coq Require Import String.
From PS Require Import Base.Bytes Base.Result Model.Converter Model.Command Model.Ctor Model.InitCdb Model.CorrUtil.
From PS Require Import Proofs.Codec Proofs.Layout Proofs.CtorSound Proofs.CdbSpec Proofs.Opcodes.
From PS Require Import Spec.SAM Spec.T10Opcodes Spec.CdbFormats Gen.Tables Gen.Opcodes Gen.Ctors Gen.Misc.
Open Scope string_scope.

(* class SCSICommand is what Model/Command.v models: __init__, build_cdb, marshall_cdb, unmarshall_cdb, unmarshall have exactly the text
   the model was written for, the properties only read / write their own slot, and the class holds no other member or class-level object
   (REGENERATED inventory; anything else — a cache of field values, a defaults dictionary, a new helper — is listed here) *)
Theorem C01_command_base_is_the_modelled_text : command_base_unknown = [].
Proof. vm_compute. reflexivity. Qed.

Definition class_ok (kc : string * ctor) : bool :=
  match lookup (fst kc) cdb_specs with
  | Some sp => ctor_matches (snd kc) sp
  | None => false
  end.

(* nothing fell outside the translator's recognised shapes; every class has a standard format *)
Theorem C01_nothing_skipped :
  match unknown_ctor_parts, unknown_table_entries with [], [] => true | _, _ => false end = true
  /\ length all_ctors = 42%nat.
Proof. vm_compute. split; reflexivity. Qed.

(* the decidable side condition holds for every regenerated class *)
Theorem C01_all_classes_match : forallb class_ok all_ctors = true.
Proof. vm_compute. reflexivity. Qed.

(* the wire-format theorem, for all arguments of all classes *)
Theorem C01_wire_format :
  forall key c sp, In (key, c) all_ctors -> lookup key cdb_specs = Some sp ->
  forall ext op G pos kw G' cm,
    init_cdb (op_value op) = Ok (sp_len sp) ->
    run_ctor ext op c init_cdb G pos kw = (G', Ok cm) ->
    exists ρ0 d r,
      bind_args c pos kw = Ok ρ0 /\ cdb cm = Some r /\ G' = G /\
      (all_ints d = true -> valid_dict (sp_len sp) (c_bits c) (ints d) = true ->
         length r = sp_len sp /\ bytes_ok r /\
         encode_dict (ints d) (c_bits c) (zeros (sp_len sp)) = Ok r /\
         (forall sf, In sf (sp_fields sp) ->
            exists g v, sgeom (sp_len sp) sf = Some g /\ tgt_field r g = v /\ src_denotes ρ0 op (sf_src sf) v) /\
         (forall j, (forall sf g, In sf (sp_fields sp) -> sgeom (sp_len sp) sf = Some g -> in_field g j = false) ->
            N.testbit (ba_to_int r) j = false)).
Proof.
  intros key c sp Hin Hsp ext. apply (cdb_format_sound ext init_cdb c sp).
  pose proof C01_all_classes_match as H. rewrite forallb_forall in H. specialize (H _ Hin).
  unfold class_ok in H. cbn [fst snd] in H. now rewrite Hsp in H.
Qed.

(* the CDB length used above is SAM's length for the operation code (from C14) *)
Theorem C01_length_is_sam : forall v, v < 256 ->
  forall n, init_cdb v = Ok n -> cdb_len_of_opcode v = Some n.
Proof.
  intros v Hv n H. pose proof (len_sound eq_refl v Hv) as L.
  destruct (cdb_len_of_opcode v) as [m|]; congruence.
Qed.

(* a service action taken from any command set's opcode entry is the T10 code of that name *)
Theorem C01_service_action_is_t10 : forall S tbl name oname v sas sa x,
  In (S, tbl) command_sets -> In (name, (oname, v, sas)) tbl ->
  lookup sa sas = Some x -> lookup sa t10_service_actions = Some x.
Proof.
  intros S tbl name oname v sas sa x HS He Hl.
  destruct (values_sound eq_refl S tbl name oname v sas HS He) as [_ H]. apply H. now apply lookup_In.
Qed.

(* non-vacuity: READ(16) with a 64-bit LBA above 2^32, all flag bits, built through the model *)
Example C01_example_read16 :
  let op := mkOp 136 [] in
  match snd (run_ctor (fun _ _ => Raise TypeError) op C_scsi_cdb_read16__Read16 init_cdb G0
                      [CInt 512; CInt (2 ^ 63 + 5); CInt 3] [("fua", CInt 1); ("group", CInt 31)]) with
  | Ok cm => cdb cm = Some [136; 8; 128; 0; 0; 0; 0; 0; 0; 5; 0; 0; 0; 3; 31; 0]
  | Raise _ => False
  end.
Proof. vm_compute. reflexivity. Qed.
