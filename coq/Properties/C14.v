(* Properties/C14.v — "Operation codes, service actions and status codes are the T10 assignments".
   Finite domains, enumerated completely inside the kernel on the tables REGENERATED from
   pyscsi/pyscsi/scsi_enum_command.py and scsi_command.py on this run. *)
From Coq Require Import String.
From PS Require Import Base.Bytes Base.Result Model.Converter Model.Command Model.InitCdb.
From PS Require Import Spec.SAM Spec.T10Opcodes Gen.Opcodes Gen.Misc Proofs.Opcodes.

(* nothing in the source fell outside the translator's recognised shapes *)
Theorem C14_nothing_skipped : no_unknown_opcodes = true.
Proof. vm_compute. reflexivity. Qed.

(* the tables are exposed through class Enum: a name is looked up as an ordinary class attribute, so what a command set exposes under a name
   is the table entry of that name and nothing else — the class has exactly the members Model/Enum.v was written for (no __getattr__ fallback
   that would resolve an unlisted name to a similar entry), compared as syntax trees on every run *)
Theorem C14_lookup_is_the_table : enum_class_unknown = nil.
Proof. vm_compute. reflexivity. Qed.

(* every named entry of every command set has the T10 value, and so has every service action *)
Theorem C14_values : forall S tbl name oname v sas,
  In (S, tbl) command_sets -> In (name, (oname, v, sas)) tbl ->
  t10_value name = Some v /\ forall sa x, In (sa, x) sas -> lookup sa t10_service_actions = Some x.
Proof. apply values_sound. vm_compute. reflexivity. Qed.

(* the same name has the same value and the same service-action table in every command set *)
Theorem C14_consistent : forall S tbl S' tbl' name oname v sas oname' v' sas',
  In (S, tbl) command_sets -> In (S', tbl') command_sets ->
  In (name, (oname, v, sas)) tbl -> lookup name tbl' = Some (oname', v', sas') ->
  v = v' /\ sas = sas'.
Proof. apply consistent_sound. vm_compute. reflexivity. Qed.

(* commands defined with service actions expose them wherever they are listed *)
Theorem C14_required_service_actions : required_ok = true.
Proof. vm_compute. reflexivity. Qed.

(* status codes are the SAM-5 codes (SGIO_ERROR is a library pseudo-status) *)
Theorem C14_status :
  (forall name v, In (name, v) E_SCSI_STATUS -> In name pseudo_status \/ lookup name sam_status = Some v) /\
  (forall name v, In (name, v) sam_status -> lookup name E_SCSI_STATUS = Some v).
Proof. apply status_sound. vm_compute. reflexivity. Qed.

(* CDB length from the operation code: the group's length, refusal for groups 3, 6, 7 *)
Theorem C14_cdb_length : forall v, v < 256 ->
  match cdb_len_of_opcode v with
  | Some n => init_cdb v = Ok n
  | None => init_cdb v = Raise OpcodeException
  end.
Proof. apply len_sound. vm_compute. reflexivity. Qed.

(* how many entries the statements above range over (so nothing is silently empty) *)
Theorem C14_count : (200 <= entries_checked)%nat /\ length command_sets = 5%nat.
Proof. vm_compute. split; [repeat constructor|reflexivity]. Qed.
