(* Properties/C05.v — "Parameter lists sent to the device have the standard layout and honest lengths".
   The mask tables of the parameter lists, the length-field stores of every builder and the padding helper are
   REGENERATED from /repo on every run; Spec/RespFormats.v and Spec/ParamRules.v state the standard. *)
From Coq Require Import String.
From PS Require Import Base.Bytes Base.Result Model.Converter Model.Ctor Model.Parser Model.ParserInst.
From PS Require Import Proofs.Layout Proofs.ParserProps Proofs.BuilderProps Proofs.CtorSound Spec.RespFormats Spec.ParamRules Gen.Tables Gen.Builders.
Open Scope string_scope.
Open Scope N_scope.

Theorem C05_side_conditions : param_formats_ok = true /\ length_stores_ok = true /\ unknown_builders = [].
Proof. vm_compute. repeat split. Qed.

(* POSITIONS. For each of the 22 parameter-list formats (PR OUT basic and REGISTER AND MOVE lists, TransportID header,
   EXTENDED COPY LID1/LID4 headers, CSCD and segment descriptors, mode parameter headers and pages) and EVERY valid
   dictionary: encoding with the library's table succeeds, has the format's length, and a reader of the standard finds
   each supplied value at the byte / bit position the standard assigns. *)
Theorem C05_values_at_standard_positions :
  forall name, In name param_formats ->
  exists names n flds L, lookup name resp_formats = Some (names, n, flds) /\ layout_of names = Some L /\
    forall d, valid_dict n L d = true ->
    exists r, encode_dict d L (zeros n) = Ok r /\ length r = n /\
      forall k b m w x, In (k, b, m, w) flds -> In (k, VI x) d -> std_read r b m w = x.
Proof. apply param_formats_sound. exact (proj1 C05_side_conditions). Qed.

(* LENGTHS. Every length field a builder fills in is stored as  len(buffer) - c  with the c the standard prescribes
   (side condition above: the regenerated stores equal Spec/ParamRules.v, nothing else is stored); and such a store
   reads back, big-endian at its position, as the number of bytes from byte c to the end — for every buffer. *)
Theorem C05_length_fields_honest : forall r a b c,
  (a <= b <= length r)%nat -> N.of_nat (length r - c) < 256 ^ N.of_nat (b - a) ->
  length (store_len r a b c) = length r /\
  ba_to_int (slice (store_len r a b c) a b) = N.of_nat (length r - c).
Proof. exact store_len_spec. Qed.

(* PADDING. An iSCSI TransportID name of n bytes is given pad4_len n bytes (regenerated from _pad4_len): a multiple
   of four with room for the terminating null and never more than three bytes of padding beyond it. *)
Theorem C05_iscsi_name_padding : forall n, pad4_len n mod 4 = 0 /\ n + 1 <= pad4_len n /\ pad4_len n <= n + 4.
Proof. exact pad4_len_spec. Qed.

(* CDB. PARAMETER LIST LENGTH is len() of the very buffer stored as data-out (C03_param_list_length, decided on the
   regenerated constructor IR for MODE SELECT 6/10, PERSISTENT RESERVE OUT and EXTENDED COPY LID1/LID4) *)
Theorem C05_param_list_length : forall ext op ρ w v L,
  eval ext op ρ (ELen (EVar w)) = Ok (CInt L) -> lookup w ρ = Some v ->
  match v with CBytes b => L = N.of_nat (length b) | CZeros n => L = n | _ => False end.
Proof.
  intros ext op ρ w v L He Hl. rewrite eval_eq, (eval_eq _ _ ρ (EVar w)) in He. unfold get in He. rewrite Hl in He.
  destruct v; try discriminate; now inversion He.
Qed.

(* non-vacuity: a REGISTER AND MOVE list with all fields set *)
Example C05_example_register_and_move :
  match layout_of ["scsi_cdb_persistentreserveout.PersistentReserveOut._ram_parameter_list_bits"] with
  | Some L => encode_dict [("reservation_key", VI (2 ^ 63 + 1)); ("service_action_reservation_key", VI 7); ("unreg", VI 1);
                           ("aptpl", VI 1); ("relative_target_port_id", VI 513); ("transportid_length", VI 24)] L (zeros 24)
  | None => Raise KeyError
  end = Ok [128; 0; 0; 0; 0; 0; 0; 1; 0; 0; 0; 0; 0; 0; 0; 7; 0; 3; 2; 1; 0; 0; 0; 24].
Proof. vm_compute. reflexivity. Qed.

(* ---------------------------------------------------------------------------------------------------------------------
   The builder of the PERSISTENT RESERVE OUT parameter lists, REGENERATED from the source (Gen/PyFuncs.v) and run under the
   semantics of the small Python (Model/Py.v) — for every dictionary, every TransportID and any number of them. *)
From Coq Require Import ZArith List.
From PS Require Import Model.Py Proofs.PyBuilders Gen.PyFuncs.
Import ListNotations.

(* REGISTER AND MOVE: the 24-byte list the library's table encodes from the caller's values WITH TRANSPORTID PARAMETER DATA LENGTH set to
   the length of the TransportID that follows, then exactly the TransportID the TransportID builder returned *)
Theorem C05_py_register_and_move : forall (op tid : pv) (sa : Z) (data : list (string * pv)) (tidb hdr : bytes) f,
  opcode_has op "REGISTER_AND_MOVE" sa ->
  lookup "transport_id" data = Some tid -> truthy tid = true ->
  call_fun all_tables py_program f MTI [tid] = Ok (PBytes tidb) ->
  encode_pv (dict_set data "transportid_length" (PInt (Z.of_nat (length tidb)))) T_ram (zeros 24) = Ok hdr ->
  call_fun all_tables py_program (S f) PROUT [op; PInt sa; PDict data] = Ok (PBytes (hdr ++ tidb)%list).
Proof. exact prout_register_and_move_exact. Qed.

(* REGISTER with SPEC_I_PT: bytes 24..27 hold the total length of the TransportIDs that follow; all of them follow, in order *)
Theorem C05_py_register_spec_i_pt : forall (op : pv) (sam sar : Z) (data : list (string * pv)) (sp : pv) (ts : list pv) (bs : list bytes) (hdr : bytes) f,
  opcode_has op "REGISTER_AND_MOVE" sam -> opcode_has op "REGISTER" sar -> sar <> sam ->
  lookup "spec_i_pt" data = Some sp -> truthy sp = true -> lookup "transport_ids" data = Some (PList ts) ->
  tids_built (call_with py_program (run all_tables py_program f)) ts bs ->
  encode_pv data T_basic (zeros 28) = Ok hdr -> length hdr = 28%nat ->
  call_fun all_tables py_program (S f) PROUT [op; PInt sar; PDict data]
  = Ok (PBytes (firstn 24 hdr ++ int_to_ba (N.of_nat (length (concat bs))) 4 ++ concat bs)%list).
Proof. exact prout_register_spec_i_pt_exact. Qed.

(* every other service action: the plain 24-byte list *)
Theorem C05_py_basic_list : forall (op : pv) (sa sam sar : Z) (data : list (string * pv)) (hdr : bytes) f,
  opcode_has op "REGISTER_AND_MOVE" sam -> opcode_has op "REGISTER" sar ->
  sa <> sam -> (sa <> sar \/ match lookup "spec_i_pt" data with Some v => truthy v = false | None => True end) ->
  encode_pv data T_basic (zeros 24) = Ok hdr ->
  call_fun all_tables py_program (S f) PROUT [op; PInt sa; PDict data] = Ok (PBytes hdr).
Proof. exact prout_basic_exact. Qed.

(* the iSCSI TransportID (TPID format 00b) the builder returns for EVERY ASCII name: ADDITIONAL LENGTH is len(name)+1 rounded up to a
   multiple of four (the regenerated _pad4_len, run through its own body), the name starts at byte 4, the rest is NUL *)
Theorem C05_py_iscsi_transport_id : forall (s : String.string) (name : bytes) f,
  bytes_of_string s = Some name -> (2 <= f)%nat -> (Z.of_nat (length name) <= 1000000)%Z ->
  call_fun all_tables py_program f MTI [PDict [("protocol_id", PInt 5); ("iscsi_name", PStr s)]] = Ok (PBytes (iscsi_tid0 name)).
Proof. exact iscsi_transport_id_format0. Qed.

(* read back as SPC lays it out: the length field equals the number of bytes that follow it, the whole is a multiple of four bytes,
   the name is where the standard puts it and NUL-terminated *)
Theorem C05_py_iscsi_transport_id_honest : forall name : bytes, (Z.of_nat (length name) <= 65000)%Z ->
  let t := iscsi_tid0 name in
  length t = (4 + pad4 (length name))%nat /\ (length t mod 4 = 0)%nat /\
  ba_to_int (firstn 2 (skipn 2 t)) = N.of_nat (length t - 4) /\
  firstn (length name) (skipn 4 t) = name /\ nth (4 + length name) t 1 = 0.
Proof. exact iscsi_tid0_honest. Qed.

(* ... and the whole REGISTER AND MOVE list with such a TransportID, in closed form *)
Theorem C05_py_register_and_move_iscsi : forall (op : pv) (sa : Z) (data : list (String.string * pv)) (s : String.string) (name hdr : bytes) f,
  opcode_has op "REGISTER_AND_MOVE" sa ->
  lookup "transport_id" data = Some (PDict [("protocol_id", PInt 5); ("iscsi_name", PStr s)]) ->
  bytes_of_string s = Some name -> (Z.of_nat (length name) <= 65000)%Z -> (2 <= f)%nat ->
  encode_pv (dict_set data "transportid_length" (PInt (Z.of_nat (4 + pad4 (length name))))) T_ram (zeros 24) = Ok hdr ->
  call_fun all_tables py_program (S f) PROUT [op; PInt sa; PDict data] = Ok (PBytes (hdr ++ iscsi_tid0 name)%list).
Proof. exact prout_register_and_move_iscsi. Qed.
