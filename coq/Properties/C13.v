(* Properties/C13.v — "Each facade call sends exactly one command and decodes what the device returned".
   The 38 facade methods are REGENERATED as action lists (Gen/FacadeTbl.v). *)
From Coq Require Import String.
From PS Require Import Base.Bytes Base.Result Model.Converter Model.Ctor Model.Facade Model.CorrUtil.
From PS Require Import Gen.Tables Gen.Opcodes Gen.Ctors Gen.FacadeTbl Proofs.FacadeProps Proofs.Opcodes Spec.T10Opcodes.
Open Scope string_scope.
Open Scope N_scope.

Theorem C13_nothing_skipped :
  match unknown_facade with [] => true | _ => false end = true /\ length facade_methods = 38%nat.
Proof. vm_compute. split; reflexivity. Qed.

(* every method: look up, construct with that opcode, execute once, (decode), return — and nothing else *)
Theorem C13_shape : forall m, In m facade_methods -> well_shaped (f_acts m) = true /\ method_wired m = true.
Proof.
  assert (H : forallb (fun m => well_shaped (f_acts m) && method_wired m) facade_methods = true) by (vm_compute; reflexivity).
  intros m Hm. rewrite forallb_forall in H. specialize (H m Hm). now apply andb_prop in H.
Qed.

(* what that shape means for every call, wherever it fails *)
Theorem C13_one_command : forall m, In m facade_methods ->
  (exists r, trace None (f_acts m) = [EvLookup; EvConstruct; EvExecute r; EvReturn] \/
             trace None (f_acts m) = [EvLookup; EvConstruct; EvExecute r; EvUnmarshall; EvReturn]) /\
  (forall f, (count_exec (trace f (f_acts m)) <= 1)%nat) /\
  (forall f, f = Some FailConstruct \/ f = Some FailLookup ->
     count_exec (trace f (f_acts m)) = 0%nat /\ has EvReturn (trace f (f_acts m)) = false) /\
  (has EvUnmarshall (trace (Some FailExecute) (f_acts m)) = false /\ has EvReturn (trace (Some FailExecute) (f_acts m)) = false).
Proof. intros m Hm. apply shape_sound. exact (proj1 (C13_shape m Hm)). Qed.

(* service-action opcodes found by key suffix: in every command set the first key ending in 9E / A3 has that value
   and carries the service actions the facade asks for; sets without such a key make next() raise StopIteration *)
Definition suffix_ok (S : string * list opentry) : bool :=
  match lookup_suffix (snd S) "9E" with
  | Some (_, (_, v, sas)) => (v =? 158) && optN_eqb (lookup "READ_CAPACITY_16" sas) (Some 16) && optN_eqb (lookup "GET_LBA_STATUS" sas) (Some 18)
  | None => true
  end &&
  match lookup_suffix (snd S) "A3" with
  | Some (_, (_, v, sas)) => (v =? 163) && optN_eqb (lookup "REPORT_PRIORITY" sas) (Some 14) && optN_eqb (lookup "REPORT_TARGET_PORT_GROUPS" sas) (Some 10)
  | None => true
  end.
Theorem C13_get_opcode : forall S, In S command_sets -> suffix_ok S = true.
Proof.
  assert (H : forallb suffix_ok command_sets = true) by (vm_compute; reflexivity).
  intros S HS. rewrite forallb_forall in H. now apply H.
Qed.

(* the keyword arguments a method documents are parameters of the constructor it calls *)
Theorem C13_documented_kwargs : forall m, In m facade_methods -> doc_ok m = true.
Proof.
  assert (H : forallb doc_ok facade_methods = true) by (vm_compute; reflexivity).
  intros m Hm. rewrite forallb_forall in H. now apply H.
Qed.
