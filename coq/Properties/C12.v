(* Properties/C12.v — "Data written through the library is read back intact from a conformant target".
   The stack is: facade method (action list REGENERATED from scsi.py) -> operation code of the SBC command set
   (REGENERATED from scsi_enum_command.py) -> command constructor (IR REGENERATED from scsi_cdb_*.py) with its
   mask table (REGENERATED) -> transport glue (hand model of the two execute() functions) -> the block target of
   Spec/Target.v, which decodes CDBs at the standards' positions and is written independently of the library.
   Each command form is evaluated symbolically through that stack for ALL argument values. *)
From Coq Require Import String.
From PS Require Import Base.Bytes Base.Result Model.Converter Model.Ctor Model.Stack Spec.Target.
From PS Require Import Proofs.StackProps Gen.Tables Gen.Opcodes.
Open Scope string_scope.
Open Scope N_scope.

(* one request: whatever the transport, the target ends in the state, and the caller gets the data, that the request
   means — READ returns the medium's blocks, WRITE / WRITE SAME store the caller's data, nothing else changes *)
Theorem C12_call_is_transparent : forall tr t r,
  target_ok t -> valid_req (t_bs t) (t_nblk t) r ->
  (let '(name, args, kw) := call_of r in stack_call tr (t_bs t) t name args kw) = meaning t r.
Proof. exact stack_call_meaning. Qed.

(* every history of requests *)
Theorem C12_history_is_transparent : forall tr h t,
  target_ok t -> Forall (valid_req (t_bs t) (t_nblk t)) h ->
  stack_run tr (t_bs t) t (map call_of h) = meaning_run t h.
Proof. exact stack_run_meaning. Qed.

(* identically over SG_IO and iSCSI *)
Theorem C12_transports_agree : forall h t,
  target_ok t -> Forall (valid_req (t_bs t) (t_nblk t)) h ->
  stack_run SGIO (t_bs t) t (map call_of h) = stack_run ISCSI (t_bs t) t (map call_of h).
Proof. exact transports_agree. Qed.

(* after any history every logical block holds the data last written to it (or its initial contents) ... *)
Theorem C12_medium_is_last_written : forall h t a,
  t_disk (fst (meaning_run t h)) a = latest (t_bs t) (t_disk t) (rev (writes_of (t_bs t) h)) a.
Proof. exact medium_is_latest. Qed.

(* ... and that is what a READ(10/12/16) returns *)
Theorem C12_read_returns_last_written : forall h t f lba tl fl,
  snd (meaning (fst (meaning_run t h)) (RRead f lba tl fl)) =
  Ok (read_blocks (latest (t_bs t) (t_disk t) (rev (writes_of (t_bs t) h))) lba (N.to_nat tl)).
Proof. exact read_returns_latest. Qed.

(* READ CAPACITY(10/16): the bytes returned decode, through the library's own (regenerated) data-in tables, to the
   target's geometry; INQUIRY returns the target's identity bytes (C12_call_is_transparent, RInquiry) *)
Theorem C12_capacity10_reports_geometry : forall t, t_bs t < 2 ^ 32 -> 1 <= t_nblk t -> t_nblk t <= 2 ^ 32 ->
  decode_bits (readcap10_data t) T_scsi_cdb_readcapacity10__ReadCapacity10___datain_bits =
  Ok [("returned_lba", VI (t_nblk t - 1)); ("block_length", VI (t_bs t))].
Proof. exact capacity10_decodes. Qed.

Theorem C12_capacity16_reports_geometry : forall t, t_bs t < 2 ^ 32 -> 1 <= t_nblk t -> t_nblk t <= 2 ^ 64 ->
  exists f1 f2,
    lookup "returned_lba" T_scsi_cdb_readcapacity16__ReadCapacity16___datain_bits = Some f1 /\
    lookup "block_length" T_scsi_cdb_readcapacity16__ReadCapacity16___datain_bits = Some f2 /\
    decode1 (readcap16_data t) f1 = Ok (VI (t_nblk t - 1)) /\ decode1 (readcap16_data t) f2 = Ok (VI (t_bs t)).
Proof. exact capacity16_decodes. Qed.

(* non-vacuity: a concrete target and history (LBA above 2^32 through the 16-byte forms) meet the hypotheses,
   and the stack evaluates to the expected data *)
Definition T0 : target := mkT 4 (2 ^ 33 + 100) (zeros 36) (fun _ => zeros 4).
Definition fl0 := mkRF 0 0 1 0 3.
Definition wf0 := mkWF 1 1 0 7.
Definition sf0 := mkSF 0 0 1 0.
Definition H0 : list req :=
  [RWrite F16 (2 ^ 33 + 5) 2 [1; 2; 3; 4; 5; 6; 7; 8] wf0; RWriteSame16 (2 ^ 33 + 6) 1 [9; 9; 9; 9] sf0;
   RRead F16 (2 ^ 33 + 4) 4 fl0; RWrite F10 7 1 [5; 5; 5; 5] wf0; RWriteSame16Ndob 7 1 CNone sf0; RRead F12 6 3 fl0;
   RSync10 0 0 0 0; RCapacity10; RCapacity16 32; RInquiry 36].

Example C12_hypotheses_satisfiable : target_ok T0 /\ Forall (valid_req (t_bs T0) (t_nblk T0)) H0.
Proof.
  split; [split; [discriminate|split; [discriminate|intros a; reflexivity]]|].
  unfold H0. repeat (apply Forall_cons || apply Forall_nil); cbn [valid_req lba_bits tl_bits]; repeat split; try reflexivity; try discriminate.
Qed.

Example C12_example_run :
  snd (stack_run ISCSI 4 T0 (map call_of H0)) =
  [Ok []; Ok []; Ok [0; 0; 0; 0; 1; 2; 3; 4; 9; 9; 9; 9; 0; 0; 0; 0]; Ok []; Ok [];
   Ok [0; 0; 0; 0; 0; 0; 0; 0; 0; 0; 0; 0]; Ok []; Ok [255; 255; 255; 255; 0; 0; 0; 4];
   Ok [0; 0; 0; 2; 0; 0; 0; 99; 0; 0; 0; 4; 0; 0; 0; 0; 0; 0; 0; 0; 0; 0; 0; 0; 0; 0; 0; 0; 0; 0; 0; 0];
   Ok (zeros 36)].
Proof. vm_compute. reflexivity. Qed.
