(* Properties/C18.v — "Enumerations map names to values and back consistently under add/remove".
   The `keys` filter is REGENERATED from pyscsi/utils/enum.py; the operations are a hand model tied by
   correspondence.  For all initial mappings and all operation sequences (no bound). *)
From Coq Require Import String.
From PS Require Import Base.Bytes Base.Result Model.Converter Model.Enum Model.Command Gen.Misc Proofs.EnumRefine.
Open Scope string_scope.

(* the keys property lists a name iff it is not a dunder name, whatever the kind of its value
   (ints, strings, dicts, OpCode objects, functions, classes, bound methods) *)
Theorem C18_keys_filter : filter_ok enum_keys_filter = true.
Proof. vm_compute. reflexivity. Qed.

(* class Enum has exactly the members Model/Enum.v was written for, each with exactly that text (compared as syntax trees on every run), and
   no others: no __getattr__ / __getattribute__ / __call__ / __setattr__ on the metaclass, no statement after the class *)
Theorem C18_enum_class_is_the_modelled_text : enum_class_unknown = nil.
Proof. vm_compute. reflexivity. Qed.

(* an enumeration built from a mapping exposes exactly the supplied names with their values *)
Theorem C18_new : forall m, NoDup (map fst m) -> forallb visible m = true ->
  e_keys enum_keys_filter (e_new m) = map fst m /\
  forall k v, In (k, v) m -> e_getattr (e_new m) k = Ok v.
Proof.
  intros m Hnd Hv. destruct (new_inv m Hnd Hv) as [Ha Hn]. split.
  - rewrite (keys_abs _ C18_keys_filter). now rewrite <- Ha.
  - intros k v Hin. unfold e_getattr.
    assert (Hk : is_dunder k = false).
    { rewrite forallb_forall in Hv. specialize (Hv _ Hin). unfold visible in Hv. cbn [fst] in Hv. now apply negb_true_iff. }
    rewrite <- (lookup_abs (e_new m) k Hk), <- Ha.
    clear - Hnd Hin. induction m as [|[k1 v1] m IH]; [contradiction|]. cbn [map fst] in Hnd.
    inversion Hnd as [|? ? Hni Hnd']; subst. cbn [lookup]. destruct Hin as [E|Hin].
    + inversion E; subst. now rewrite String.eqb_refl.
    + destruct (String.eqb_spec k k1) as [->|]; [|auto].
      exfalso. apply Hni. change k1 with (fst (k1, v)). now apply in_map.
Qed.

(* after ANY sequence of additions, removals, lookups, reverse lookups and key listings, every answer is
   the answer of an ordinary insertion-ordered dictionary that underwent the same operations
   (adding an existing name / removing a missing one: KeyError, state unchanged) *)
Theorem C18_refines_dict : forall m ops, NoDup (map fst m) -> forallb visible m = true ->
  forallb name_ok ops = true ->
  snd (e_run enum_keys_filter (e_new m) ops) = snd (d_run m ops).
Proof.
  intros m ops Hnd Hv Hn.
  exact (proj1 (run_refines _ C18_keys_filter ops (e_new m) m (new_inv m Hnd Hv) Hn)).
Qed.

(* reverse lookup on the dictionary side: the first supplied name carrying the value, "" if none *)
Theorem C18_reverse_lookup : forall d v,
  snd (d_step d (OReverse v)) =
  RName (match find (fun kv => evalue_eqb (snd kv) v) d with Some kv => fst kv | None => "" end).
Proof. reflexivity. Qed.

(* one enumeration never affects another: an operation is a function of that enumeration's own state *)
Definition step2 (s : estate * estate) (which : bool) (o : eop) : (estate * estate) * eout :=
  if which then let '(s1, r) := e_step enum_keys_filter (fst s) o in ((s1, snd s), r)
  else let '(s2, r) := e_step enum_keys_filter (snd s) o in ((fst s, s2), r).
Theorem C18_isolated : forall s o,
  snd (fst (step2 s true o)) = snd s /\ fst (fst (step2 s false o)) = fst s.
Proof.
  intros [s1 s2] o. unfold step2. cbn [fst snd].
  destruct (e_step enum_keys_filter s1 o). destruct (e_step enum_keys_filter s2 o). split; reflexivity.
Qed.

(* non-vacuity *)
Example C18_example :
  snd (e_run enum_keys_filter (e_new [("A", EVInt 1); ("B", EVObj "f" Callable); ("C", EVInt 1)])
         [OKeys; OReverse (EVInt 1); OAdd "B" (EVInt 9); ORemove "A"; OReverse (EVInt 1); OKeys])
  = [RKeys ["A"; "B"; "C"]; RName "A"; RExn KeyError; RUnit; RName "C"; RKeys ["B"; "C"]].
Proof. vm_compute. reflexivity. Qed.
