(* Properties/C04.v — "Well-formed device responses are decoded to the values the device sent".
   Spec/RespFormats.v states 37 response / parameter-data formats in the standards' notation (byte, msb, width),
   written by hand from SPC-4 / SBC-3 / SMC-3 / MMC-6.  The library's tables and the skeletons of its decoders
   (which tables, page codes, list start, length bytes, stride) are REGENERATED from /repo on every run. *)
From Coq Require Import String Lia.
From PS Require Import Base.Bytes Base.Result Model.Converter Model.Parser Model.ParserInst Model.VarList.
From PS Require Import Proofs.ParserProps Proofs.ParserChecks Proofs.VarListProps Spec.RespFormats Gen.Tables Gen.Parsers.
From Coq Require Import ZArith.
From PS Require Import Model.Py Proofs.PyLemmas Proofs.PyParsers Proofs.PyParsersRES Proofs.PyParsersRES2 Gen.PyFuncs.
Open Scope string_scope.
Open Scope N_scope.

Theorem C04_nothing_skipped : unknown_parsers = [] /\ (30 <= length resp_formats)%nat.
Proof. split; [vm_compute; reflexivity|vm_compute; repeat constructor]. Qed.

(* the decidable side conditions hold for the regenerated tables and decoder skeletons *)
Theorem C04_side_conditions : formats_ok = true /\ structure_ok = true /\ lists_ok = true /\ var_lists_ok = true.
Proof. vm_compute. repeat split. Qed.

(* FIELDS. For every format and EVERY buffer: decoding with the library's tables cannot fail and reports, under each
   of the library's names, exactly what a reader of the standard finds at that field's byte / bit position. *)
Theorem C04_fields_at_standard_positions :
  forall name names n flds, In (name, (names, n, flds)) resp_formats ->
  exists L, layout_of names = Some L /\
    forall data, exists d, decode_bits data L = Ok d /\
      forall k b m w, In (k, b, m, w) flds ->
        lookup k d = Some (VI (std_read data b m w)) \/ lookup k d = Some (VB (std_read_bytes data b w)).
Proof. apply formats_sound. exact (proj1 C04_side_conditions). Qed.

(* LENGTHS. For REPORT LUNS, GET LBA STATUS and PR IN READ KEYS, a response made of the header, `count` descriptors
   and any trailing bytes, whose length field has the value the standard prescribes, is split into exactly those
   descriptors: each one whole, in order, nothing beyond the reported length — for every count and every content. *)
Theorem C04_descriptor_lists_exact :
  forall fn s a b bias k, In (fn, (s, (a, b), bias, k)) list_formats ->
  forall (hdr : bytes) (descs : list bytes) (trail : bytes),
    length hdr = s -> Forall (fun d => length d = k) descs ->
    (N.to_nat (ba_to_int (slice hdr a b)) + bias = s + k * length descs)%nat ->
    parse_list_named fn (hdr ++ concat descs ++ trail)%list = Some descs.
Proof. apply lists_sound. exact (proj1 (proj2 (proj2 C04_side_conditions))). Qed.

(* SELF-DESCRIBING DESCRIPTORS. The designation descriptors of the device identification page, the READ FULL STATUS
   descriptors, the REPORT PRIORITY descriptors and the element status pages carry their own length; the decoders
   (loop skeletons REGENERATED) advance by the standard's fixed part plus that field.  For every number of descriptors and
   every content: if each descriptor's length field is honest, the walk returns exactly those descriptors, whole, in order. *)
Theorem C04_self_describing_lists_exact :
  forall fn f a b, In (fn, (f, a, b)) var_list_formats ->
  forall descs : list bytes,
    Forall (desc_ok (mkVP f a b)) descs ->
    walk_named fn (concat descs) = Some descs.
Proof.
  intros fn f a b Hin descs Hd.
  destruct (var_lists_sound (proj2 (proj2 (proj2 C04_side_conditions))) fn f a b Hin) as ([[n v] p] & Hf & H1 & H2 & H3).
  unfold walk_named. rewrite Hf. cbn [snd] in *. destruct p as [f' a' b']. cbn [vp_fixed vp_a vp_b] in *. subst f' a' b'.
  apply vchunks_exact; [assumption|].
  clear -Hd. induction Hd as [|d ds (_ & Hp & _) _ IH]; [cbn; lia|]. cbn [concat length]. rewrite app_length. lia.
Qed.

(* VPD pages are cut at PAGE LENGTH + 4 before decoding: fields inside the page are unaffected *)
Theorem C04_vpd_cut_preserves_fields : forall data b m w,
  (N.to_nat b + span m w <= 4 + N.to_nat (ba_to_int (slice data 2 4)))%nat ->
  std_read (vpd_truncate data) b m w = std_read data b m w.
Proof. intros. apply std_read_firstn. assumption. Qed.

(* non-vacuity: a READ CAPACITY(16) response and a two-LUN REPORT LUNS response *)
Example C04_example_readcapacity16 :
  parse_whole_named "scsi_cdb_readcapacity16.ReadCapacity16.unmarshall_datain"
    ([0; 0; 0; 2; 0; 0; 0; 99] ++ [0; 0; 2; 0] ++ [3; 0x21; 0x80; 5] ++ zeros 16)%list =
  Ok [("returned_lba", VI (2 ^ 33 + 99)); ("block_length", VI 512); ("p_type", VI 1); ("prot_en", VI 1);
      ("p_i_exponent", VI 2); ("lbppbe", VI 1); ("lbpme", VI 1); ("lbprz", VI 0); ("lowest_aligned_lba", VI 5)].
Proof. vm_compute. reflexivity. Qed.

Example C04_example_report_luns :
  parse_list_named "scsi_cdb_report_luns.ReportLuns.unmarshall_datain"
    ([0; 0; 0; 16; 0; 0; 0; 0] ++ [0; 1; 0; 0; 0; 0; 0; 0] ++ [0; 2; 0; 0; 0; 0; 0; 9] ++ [7; 7; 7])%list =
  Some [[0; 1; 0; 0; 0; 0; 0; 0]; [0; 2; 0; 0; 0; 0; 0; 9]].
Proof. vm_compute. reflexivity. Qed.

(* ------------------------------------------------------------------------------------------------------------------
   WHOLE DECODER BODIES.  The bodies of the decoders are REGENERATED statement by statement (Gen/PyFuncs.v) as programs
   of the small Python of Model/Py.v; the theorems below run those very programs (call_fun), for every descriptor
   count, every content and any trailing bytes, with no bound. *)

(* GET LBA STATUS: 8-byte header + n descriptors of 16 bytes + anything, PARAMETER DATA LENGTH = 4 + 16 n *)
Theorem C04_py_getlbastatus_exact : forall (hdr : bytes) (descs : list bytes) (trail : bytes) f,
  length hdr = 8%nat -> Forall (fun d => length d = 16%nat) descs ->
  (Z.of_N (ba_to_int (firstn 4 hdr)) + 4 = Z.of_nat (8 + length (concat descs)))%Z ->
  (length descs + 2 <= f)%nat ->
  call_fun all_tables py_program f GLS [PBytes (hdr ++ concat descs ++ trail)%list] =
  Ok (PDict [("lbas", PList (map gls_desc descs))]).
Proof. exact getlbastatus_exact. Qed.

(* PERSISTENT RESERVE IN / READ KEYS: PRGENERATION, ADDITIONAL LENGTH = 8 n, n keys of 8 bytes, anything *)
Theorem C04_py_read_keys_exact : forall (hdr : bytes) (descs : list bytes) (trail : bytes) f,
  length hdr = 8%nat -> Forall (fun d => length d = 8%nat) descs ->
  Z.of_N (ba_to_int (skipn 4 hdr)) = Z.of_nat (length (concat descs)) ->
  (length descs + 2 <= f)%nat ->
  call_fun all_tables py_program f PRK [PBytes (hdr ++ concat descs ++ trail)%list] =
  Ok (PDict [("pr_generation", PInt (Z.of_N (ba_to_int (firstn 4 hdr)))); ("reservation_keys", PList (map prk_key descs))]).
Proof. exact prin_read_keys_exact. Qed.

(* REPORT TARGET PORT GROUPS (nested lists): every number of groups, each group with its own number of target ports *)
Theorem C04_py_rtpg_exact_length_only : forall (len4 : bytes) (groups : list tpg) (trail : bytes) f,
  length len4 = 4%nat -> Forall tpg_ok groups ->
  Z.of_N (ba_to_int len4) = Z.of_nat (length (concat (map tpg_bytes groups))) ->
  (forall g gs, groups = g :: gs -> lookup "format_type" (dict_of_decoded (decode_total (g_hdr g) T_ext)) = Some (PInt 0)) ->
  (2 * length (concat (map tpg_bytes groups)) + 4 <= f)%nat ->
  call_fun all_tables py_program f RTPG [PBytes (len4 ++ concat (map tpg_bytes groups) ++ trail)%list] =
  Ok (PDict [("format_type", PInt 0); ("target_port_group_descriptors", PList (map tpg_dict groups))]).
Proof. exact rtpg_exact_length_only. Qed.

Theorem C04_py_rtpg_exact_extended_header : forall (len4 ext : bytes) (groups : list tpg) (trail : bytes) (itt : pv) f,
  length len4 = 4%nat -> length ext = 4%nat -> Forall tpg_ok groups ->
  Z.of_N (ba_to_int len4) = Z.of_nat (4 + length (concat (map tpg_bytes groups))) ->
  lookup "format_type" (dict_of_decoded (decode_total ext T_ext)) = Some (PInt 1) ->
  lookup "implicit_transition_time" (dict_of_decoded (decode_total ext T_ext)) = Some itt ->
  (2 * length (concat (map tpg_bytes groups)) + 4 <= f)%nat ->
  call_fun all_tables py_program f RTPG [PBytes (len4 ++ (ext ++ concat (map tpg_bytes groups)) ++ trail)%list] =
  Ok (PDict [("format_type", PInt 1); ("implicit_transition_time", itt);
             ("target_port_group_descriptors", PList (map tpg_dict groups))]).
Proof. exact rtpg_exact_extended_header. Qed.

(* REPORT PRIORITY (descriptors that carry their own length): 8 fixed bytes + a TransportID of ADDITIONAL LENGTH bytes each *)
Theorem C04_py_report_priority_exact : forall (len4 : bytes) (descs : list pdesc) (trail : bytes) f,
  length len4 = 4%nat -> Forall pd_ok descs ->
  Z.of_N (ba_to_int len4) = Z.of_nat (length (concat (map pd_bytes descs))) ->
  (length descs + 2 <= f)%nat ->
  call_fun all_tables py_program f RPRI [PBytes (len4 ++ concat (map pd_bytes descs) ++ trail)%list] =
  Ok (PDict [("priority_descriptors", PList (map pd_dict descs))]).
Proof. exact report_priority_exact. Qed.

(* PERSISTENT RESERVE IN / READ FULL STATUS: 24 fixed bytes + a TransportID each; the TransportID is decoded by ANOTHER
   regenerated function (a call inside the loop); the theorem is compositional in what that function returns ... *)
Theorem C04_py_read_full_status_exact : forall (hdr : bytes) (descs : list fsdesc) (trail : bytes) f,
  length hdr = 8%nat -> Forall fs_ok descs ->
  Z.of_N (ba_to_int (skipn 4 hdr)) = Z.of_nat (length (concat (map fs_bytes descs))) ->
  (length descs + 3 <= f)%nat ->
  call_fun all_tables py_program f RFS [PBytes (hdr ++ concat (map fs_bytes descs) ++ trail)%list] =
  Ok (PDict [("pr_generation", PInt (Z.of_N (ba_to_int (firstn 4 hdr)))); ("full_status", PList (map fs_dict descs))]).
Proof. exact prin_read_full_status_exact. Qed.

(* ... and what it returns for the 24-byte Fibre Channel and SAS TransportIDs, whatever follows them in the buffer *)
Theorem C04_py_transport_id_fc_sas : forall tid, length tid = 24%nat ->
  (lookup "protocol_id" (tid_fields tid) = Some (PInt 0) ->
     tid_decodes tid (PDict (tid_fields tid ++ [("n_port_name", PBytes (firstn 8 (skipn 8 tid)))])%list)) /\
  (lookup "protocol_id" (tid_fields tid) = Some (PInt 6) ->
     tid_decodes tid (PDict (tid_fields tid ++ [("sas_address", PBytes (firstn 8 (skipn 4 tid)))])%list)).
Proof. intros tid Hl. split; intros Hp; [exact (tid_decodes_fc tid Hl Hp)|exact (tid_decodes_sas tid Hl Hp)]. Qed.

(* READ ELEMENT STATUS: header, any number of element status pages (own flags, descriptor length, descriptor count), anything.
   Exactly those pages with exactly their descriptors; volume tags where the page announces them (PVOLTAG / AVOLTAG, all four
   combinations); the fields of the page's element type. *)
Theorem C04_py_read_element_status_exact : forall (hdr : bytes) (pages : list espage) (trail : bytes) f,
  length hdr = 8%nat -> Forall page_ok pages ->
  Z.of_N (ba_to_int (skipn 5 hdr)) = Z.of_nat (length (concat (map page_bytes pages))) ->
  (2 * length (concat (map page_bytes pages)) + 4 <= f)%nat ->
  call_fun all_tables py_program f RES [PBytes (hdr ++ concat (map page_bytes pages) ++ trail)%list] =
  Ok (PDict (dict_update (res_header hdr) [("element_status_pages", PList (map page_dict pages))])).
Proof. exact read_element_status_exact. Qed.

(* non-vacuity: a storage page (type 2) with primary volume tags and two 52-byte descriptors meets page_ok *)
Example C04_example_res_page_ok :
  page_ok (mkEP [2; 0x80; 0; 52; 0; 0; 0; 104] (mkPF true false 2) 52 [zeros 52; (1 :: 2 :: zeros 50)%list]).
Proof.
  unfold page_ok. cbn [ep_hdr ep_flags ep_E ep_descs pf_pv pf_av pf_ty].
  repeat split; try (vm_compute; reflexivity); try (vm_compute; repeat constructor).
Qed.

(* non-vacuity: a two-group response (2 ports, 0 ports) with trailing bytes, run through the regenerated body *)
Example C04_example_py_rtpg :
  call_fun all_tables py_program 100 RTPG
    [PBytes ([0; 0; 0; 24] ++ ([0x81; 0x0F; 0; 7; 0; 0; 0; 2] ++ [0; 0; 0; 1] ++ [0; 0; 0; 2]) ++ [0x02; 0; 0; 9; 0; 0; 0; 0] ++ [7; 7])%list] =
  Ok (PDict [("format_type", PInt 0);
             ("target_port_group_descriptors", PList [
                PDict [("asymmetric_access_state", PInt 1); ("pref", PInt 1); ("ao_sup", PInt 1); ("an_sup", PInt 1); ("s_sup", PInt 1);
                       ("u_sup", PInt 1); ("o_sup", PInt 0); ("t_sup", PInt 0); ("target_port_group", PInt 7); ("status_code", PInt 0);
                       ("vendor", PInt 0); ("target_port_count", PInt 2);
                       ("target_ports", PList [PDict [("relative_target_port_id", PInt 1)]; PDict [("relative_target_port_id", PInt 2)]])];
                PDict [("asymmetric_access_state", PInt 2); ("pref", PInt 0); ("ao_sup", PInt 0); ("an_sup", PInt 0); ("s_sup", PInt 0);
                       ("u_sup", PInt 0); ("o_sup", PInt 0); ("t_sup", PInt 0); ("target_port_group", PInt 9); ("status_code", PInt 0);
                       ("vendor", PInt 0); ("target_port_count", PInt 0); ("target_ports", PList [])]])]).
Proof. vm_compute. reflexivity. Qed.
