(* Properties/C09.v — "Command objects are isolated from one another, in any order or interleaving".
   The footprint scan of scsi_command.py and every scsi_cdb_*.py (writes to class attributes, module globals and
   the caller's own dict/list arguments inside functions) is REGENERATED on every run (Gen/Footprint.v); the
   constructor semantics threads the class-level state the library used to keep, and we PROVE that no statement
   of any regenerated constructor reads or writes it: whatever that state is (i.e. whatever other commands did
   before, after or in between), the command built and the result of decoding/encoding with its class are the same. *)
From Coq Require Import String.
From PS Require Import Base.Bytes Base.Result Model.Converter Model.Command Model.Ctor Model.InitCdb.
From PS Require Import Proofs.CtorSound Gen.Tables Gen.Ctors Gen.Footprint.
From PS Require Gen.Misc.
Open Scope string_scope.

(* no function of the command modules writes an attribute of a class object, a module global, or a dictionary /
   list it was handed by its caller *)
Theorem C09_footprint_empty : shared_writes = [] /\ param_mutations = [].
Proof. vm_compute. split; reflexivity. Qed.

(* constructing a command neither reads nor writes shared state: for ANY two values of the class-level state
   (= any history of other commands), the same arguments build the same command, and the state is left untouched *)
Theorem C09_construction_isolated : forall key c, In (key, c) all_ctors ->
  forall ext op G1 G2 pos kw,
    snd (run_ctor ext op c init_cdb G1 pos kw) = snd (run_ctor ext op c init_cdb G2 pos kw) /\
    fst (run_ctor ext op c init_cdb G1 pos kw) = G1.
Proof.
  intros key c _ ext op G1 G2 pos kw. unfold run_ctor.
  destruct (bind_args c pos kw) as [ρ|e]; [|split; reflexivity].
  assert (H : forall body G st, snd (run ext op c init_cdb G st body) = snd (run ext op c init_cdb G2 st body) /\
                                fst (run ext op c init_cdb G st body) = G).
  { induction body as [|[g s] body IH]; intros G st; cbn [run]; [split; reflexivity|].
    destruct (guard_holds (fst st) g); [|apply IH].
    assert (E : forall Ga, exec ext op c init_cdb Ga st s = (Ga, snd (exec ext op c init_cdb G2 st s))).
    { intros Ga. destruct st as [ρ0 c0]. destruct s; cbn [exec];
        repeat match goal with
               | |- context [match ?x with _ => _ end] => destruct x
               end; reflexivity. }
    rewrite (E G), (E G2). destruct (snd (exec ext op c init_cdb G2 st s)) as [st1|e1]; [apply IH|split; reflexivity]. }
  destruct (H (c_body c) G1 (ρ, cmd0)) as [A B].
  destruct (run ext op c init_cdb G1 (ρ, cmd0) (c_body c)) as [Ga [[ρa ca]|ea]];
    destruct (run ext op c init_cdb G2 (ρ, cmd0) (c_body c)) as [Gb [[ρb cb]|eb]];
    cbn [fst snd] in *; subst; try discriminate; split; try reflexivity; inversion A; reflexivity.
Qed.

(* decoding / encoding with a class is a function of that class's own table only (classmethods over cls._cdb_bits):
   the model functions take no state at all *)
Theorem C09_codec_is_stateless : forall c b d,
  unmarshall_cdb c b = decode_bits b (c_bits c) /\
  (forall v n, lookup "opcode" d = Some (VI v) -> init_cdb v = Ok n -> marshall_cdb init_cdb c d = encode_dict d (c_bits c) (zeros n)).
Proof.
  intros c b d. split; [reflexivity|]. intros v n Hv Hi. unfold marshall_cdb. now rewrite Hv, Hi.
Qed.

(* interleavings: threads that each run their own sequence of constructions. Each construction is a function of
   thread-local data only (theorem above), so under ANY schedule every thread obtains what it obtains running alone *)
Section Sched.
  Variable T : Type.                       (* a thread-local step *)
  Variable local : Type.                   (* thread-local state *)
  Variable lstep : local -> T -> local.    (* a step touches only its own thread's state *)

  Fixpoint set_nth {A} (l : list A) (n : nat) (x : A) : list A :=
    match l, n with [], _ => [] | _ :: l', O => x :: l' | y :: l', S n' => y :: set_nth l' n' x end.

  (* the schedule names, for each global step, which thread moves and what it does next *)
  Fixpoint run_sched (sts : list local) (sched : list (nat * T)) : list local :=
    match sched with
    | [] => sts
    | (i, t) :: rest =>
        match nth_error sts i with
        | Some s => run_sched (set_nth sts i (lstep s t)) rest
        | None => run_sched sts rest
        end
    end.

  Definition project (i : nat) (sched : list (nat * T)) : list T :=
    map snd (filter (fun it => Nat.eqb (fst it) i) sched).

  Lemma nth_error_set_same {A} (l : list A) i x y : nth_error l i = Some y -> nth_error (set_nth l i x) i = Some x.
  Proof. revert i; induction l as [|z l IH]; intros [|i]; cbn; try discriminate; auto. Qed.
  Lemma nth_error_set_other {A} (l : list A) i j x : i <> j -> nth_error (set_nth l i x) j = nth_error l j.
  Proof. revert i j; induction l as [|z l IH]; intros [|i] [|j] H; cbn; try reflexivity; try congruence. apply IH. congruence. Qed.

  Theorem C09_schedule_independent : forall sched sts i s,
    nth_error sts i = Some s ->
    nth_error (run_sched sts sched) i = Some (fold_left lstep (project i sched) s).
  Proof.
    induction sched as [|[j t] sched IH]; intros sts i s Hi; cbn [run_sched project filter map fold_left fst snd]; [assumption|].
    destruct (nth_error sts j) as [sj|] eqn:Hj.
    - destruct (Nat.eqb_spec j i) as [->|Hne].
      + rewrite Hi in Hj. inversion Hj; subst sj. cbn [map fold_left snd].
        apply IH. eapply nth_error_set_same; eassumption.
      + apply IH. now rewrite nth_error_set_other.
    - destruct (Nat.eqb_spec j i) as [->|Hne]; [congruence|]. now apply IH.
  Qed.
End Sched.

(* the base class all commands share is exactly the modelled text and carries no state of its own (see C01) *)
Theorem C09_command_base_is_the_modelled_text : Gen.Misc.command_base_unknown = [].
Proof. vm_compute. reflexivity. Qed.

(* "Repeating a marshalling call with equal inputs yields equal bytes": none of the REGENERATED builder / decoder bodies changes, in place,
   an object that belongs to its caller — a local bound to (part of) a parameter (`x = p`, `x = p[k]`, `x = p.get(k, ..)`, `for x in p[k]`,
   or what another function of the package returned for it) and then extended with `+=`, stored into, appended to or used as an
   out-buffer of the codec.  (A bytes value is rebound by `+=`, a bytearray or list is extended in place: what the decoder of one command
   returned and the caller passes on to the builder of another would change under the first command's feet.)  Decided by the
   translator's flow-insensitive scan on every run; the documented out-buffer parameters are listed in py_unknown, not here. *)
From PS Require Gen.PyFuncs.
Theorem C09_py_builders_leave_the_callers_objects_alone : Gen.PyFuncs.py_caller_mutations = [].
Proof. vm_compute. reflexivity. Qed.
