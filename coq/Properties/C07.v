(* Properties/C07.v — "A command that did not complete with GOOD status never looks successful".
   The status dispatch of ISCSIDevice.execute and the CheckConditionError handler of SCSIDevice.execute
   are REGENERATED from the source on this run; statements are over all 256 status bytes, raw-sense
   capture on/off, and a command object with or without a stale sense cached by an earlier execution,
   then lifted to arbitrary histories.  The binding's behaviour is the stated contract (DESIGN §6). *)
From Coq Require Import String.
From PS Require Import Base.Bytes Base.Result Model.Exec Spec.SAM Gen.Opcodes Gen.Misc Proofs.ExecProps.
Open Scope N_scope.

Theorem C07_nothing_skipped : match unknown_misc with [] => true | _ => false end = true.
Proof. vm_compute. reflexivity. Qed.

(* iSCSI: returns normally only for GOOD; CHECK CONDITION raises CheckCondition carrying the sense of THIS
   execution (and attaches it as raw sense when asked); each other defined status raises the error named
   after it; every undefined status raises an error *)
Theorem C07_iscsi : forall v raw init, v < 256 -> In init inits -> iscsi_step_ok v raw init = true.
Proof. apply iscsi_sound. vm_compute. reflexivity. Qed.

Corollary C07_iscsi_good_only : forall v raw init, v < 256 -> In init inits ->
  snd (irun v raw init) = XReturn -> v = 0.
Proof.
  intros v raw init Hv Hi Hr. pose proof (C07_iscsi v raw init Hv Hi) as H. unfold iscsi_step_ok in H.
  destruct (irun v raw init) as [st r]. cbn [snd] in Hr. subst r.
  destruct (N.eqb_spec v 0); [assumption|].
  destruct (lookupN v sam_status_error) as [se|]; [destruct se|]; discriminate H.
Qed.

(* SG_IO: returns normally only if sgio.execute returned, or — only when raw sense was asked for — with the
   sense of this execution attached to the command; otherwise CHECK CONDITION raises CheckCondition *)
Theorem C07_sgio : forall o raw init,
  In o [SgReturn; SgCheckCondition; SgRaises BusyStatus; SgRaises OSError] -> In init inits ->
  sg_step_ok o raw init = true.
Proof.
  assert (H : sg_ok = true) by (vm_compute; reflexivity).
  intros o raw init Ho Hi. unfold sg_ok in H. rewrite forallb_forall in H. specialize (H o Ho).
  rewrite forallb_forall in H. assert (Hr : In raw bools) by (destruct raw; cbn; auto). specialize (H raw Hr).
  rewrite forallb_forall in H. now apply H.
Qed.

(* any exception of the binding other than CheckConditionError propagates unchanged *)
Theorem C07_sgio_other_errors : forall e raw st, sg_run sgio_cc_handler (SgRaises e) raw st = (st, XRaise e).
Proof. reflexivity. Qed.

(* at any position of any sequence of executions, also of a re-used command object *)
Theorem C07_history : forall h s0, Forall (fun vr => fst vr < 256) h ->
  Forall (fun vrr => let '(v, raw, r) := vrr in (r = XReturn -> v = 0) /\ (v = 2 -> r = XRaiseCC STask))
         (iscsi_history s0 h).
Proof. apply history_sound. vm_compute. reflexivity. Qed.

(* non-vacuity: BUSY after a failed command on the same object *)
Example C07_example : map (fun x => snd x) (iscsi_history SNone [(2, true); (8, false); (0, false)])
                      = [XRaiseCC STask; XRaise BusyStatus; XReturn].
Proof. vm_compute. reflexivity. Qed.
