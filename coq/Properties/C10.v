(* Properties/C10.v — "The bit-field codec obeys its algebraic laws for every layout".
   Only statements; every proof is `exact <lemma>`.  All sizes, masks, offsets, values: no bound. *)
From Coq Require Import String Permutation.
From Coq Require Import ZArith List.
From PS Require Import Base.Bytes Base.Result Model.Converter Proofs.Codec Proofs.Layout.
From PS Require Import Model.Py Proofs.PyLemmas Proofs.PyConverter Gen.PyConv Gen.Tables.
Import ListNotations.

(* integer <-> bytes *)
Theorem C10_int_to_bytes_to_int : forall v n, ba_to_int (int_to_ba v n) = v mod 256 ^ N.of_nat n.
Proof. exact ba_to_int_to_ba. Qed.

Theorem C10_bytes_to_int_to_bytes : forall l, bytes_ok l -> int_to_ba (ba_to_int l) (length l) = l.
Proof. exact int_to_ba_to_int. Qed.

Theorem C10_big_endian : forall v n i, (i < n)%nat ->
  nth i (int_to_ba v n) 0 = (v / 256 ^ N.of_nat (n - 1 - i)) mod 256.
Proof. exact int_to_ba_nth. Qed.

(* the integer view and the T10 byte/bit view of a buffer coincide *)
Theorem C10_bit_view : forall l j, bytes_ok l -> j < 8 * N.of_nat (length l) ->
  N.testbit (ba_to_int l) j = N.testbit (nth (length l - 1 - N.to_nat (j / 8)) l 0) (j mod 8).
Proof. exact bit_view. Qed.

(* encoding one field writes exactly the bits of that field and no others *)
Theorem C10_encode_writes_exactly_its_bits : forall n r f g v x,
  geom_of n f = Some g -> length r = n -> bytes_ok r -> vint f v = Some x -> x < 2 ^ g_w g ->
  exists r', encode1 r f v = Ok r' /\ length r' = n /\ bytes_ok r' /\
    forall j, N.testbit (ba_to_int r') j =
              if in_field g j then write_bit f g x (N.testbit (ba_to_int r) j) j
              else N.testbit (ba_to_int r) j.
Proof. exact encode1_bits. Qed.

(* decoding one field reads exactly those bits *)
Theorem C10_decode_reads_exactly_its_bits : forall n r f g,
  geom_of n f = Some g -> length r = n -> bytes_ok r ->
  exists v x, decode1 r f = Ok v /\ vint f v = Some x /\ x < 2 ^ g_w g /\
    forall i, N.testbit x i = (i <? g_w g) && N.testbit (ba_to_int r) (g_lo g + i).
Proof. exact decode1_bits. Qed.

(* decode after encode returns the value; untouched fields keep their content *)
Theorem C10_decode_encode : forall n L d r k f,
  wf_layout n L = true -> valid_dict n L d = true -> length r = n -> bytes_ok r -> In (k, f) L ->
  exists r', encode_dict d L r = Ok r' /\ length r' = n /\ bytes_ok r' /\
    (forall v, In (k, v) d -> ba_to_int r = 0 -> decode1 r' f = Ok v) /\
    (~ In k (map fst d) -> decode1 r' f = decode1 r f).
Proof. exact decode_encode_field. Qed.

(* frame: bits outside the supplied fields are unchanged, whatever the prior contents *)
Theorem C10_frame : forall n L d r,
  valid_dict n L d = true -> length r = n -> bytes_ok r ->
  exists r', encode_dict d L r = Ok r' /\ length r' = n /\
    forall j, (forall k v f g, In (k, v) d -> lookup k L = Some f -> geom_of n f = Some g -> in_field g j = false) ->
      N.testbit (ba_to_int r') j = N.testbit (ba_to_int r) j.
Proof. exact encode_frame. Qed.

(* the result does not depend on the order in which fields are supplied *)
Theorem C10_order_independent : forall n L d d' r,
  wf_layout n L = true -> valid_dict n L d = true -> Permutation d d' -> length r = n -> bytes_ok r ->
  exists r', encode_dict d L r = Ok r' /\ encode_dict d' L r = Ok r'.
Proof. exact encode_perm. Qed.

(* encode after decode reproduces any buffer whose bits outside the fields are zero *)
Theorem C10_encode_decode : forall n L b,
  wf_layout n L = true -> length b = n -> bytes_ok b ->
  (forall j, (forall k f g, In (k, f) L -> geom_of n f = Some g -> in_field g j = false) ->
             N.testbit (ba_to_int b) j = false) ->
  exists d, decode_bits b L = Ok d /\ encode_dict d L (zeros n) = Ok b.
Proof. exact encode_decode. Qed.

(* changing one field's value changes only that field *)
Theorem C10_field_independence : forall n L d d' r k k2 f2,
  wf_layout n L = true -> valid_dict n L d = true -> valid_dict n L d' = true ->
  length r = n -> bytes_ok r -> map fst d = map fst d' ->
  (forall k1 v, k1 <> k -> (In (k1, v) d <-> In (k1, v) d')) ->
  In (k2, f2) L -> k2 <> k ->
  exists r1 r2, encode_dict d L r = Ok r1 /\ encode_dict d' L r = Ok r2 /\ decode1 r1 f2 = decode1 r2 f2.
Proof. exact field_independence. Qed.

(* what the code does outside the hypotheses *)
Theorem C10_outside_mask_zero : forall r o v, encode1 r (Mask 0 o) (VI v) = Raise Diverges.
Proof. exact encode_mask_zero. Qed.
Theorem C10_outside_out_of_bounds : forall r m o v z, ctz m = Some z ->
  (length r < N.to_nat o + nbytes m)%nat -> encode1 r (Mask m o) (VI v) = Raise IndexError.
Proof. exact encode_out_of_bounds. Qed.

(* non-vacuity: a 36-bit field starting at bit 3 and spanning 5 bytes, a 72-bit (9-byte) mask, a 3-bit
   field, and "b"/"w"/"dw" blobs form a well-formed layout of a 32-byte buffer; a dictionary with
   boundary values is valid for it *)
Open Scope string_scope.
Definition ex_layout : layout :=
  [("wide36", Mask (N.shiftl (N.ones 36) 3) 0); ("nine", Mask (N.ones 72) 5); ("flag3", Mask 7 4);
   ("blob", Blob 1 14 3); ("words", Blob 2 18 2); ("dwords", Blob 4 24 2)].
Example C10_example_wf : wf_layout 32 ex_layout = true.
Proof. vm_compute. reflexivity. Qed.
Example C10_example_valid :
  valid_dict 32 ex_layout [("nine", VI (N.ones 72)); ("wide36", VI (2 ^ 35)); ("blob", VB [1; 2; 255]);
                           ("words", VB [1; 2; 3; 4]); ("flag3", VI 5)] = true.
Proof. vm_compute. reflexivity. Qed.


(* ---------------------------------------------------------------------------------------------------------------------
   The model above IS the code: pyscsi/utils/converter.py is REGENERATED on every run into programs of the small Python
   (Gen/PyConv.v, conv_program), and under the semantics of Model/Py.v those programs compute exactly what Base/Bytes.v and
   Model/Converter.v compute — for every value, width, byte string, well-formed layout and dictionary (Proofs/PyConverter.v). *)

Theorem C10_py_nothing_unknown : conv_unknown = [] /\ length conv_program = 4%nat.
Proof. vm_compute. split; reflexivity. Qed.

Theorem C10_py_int_to_ba : forall (v : N) (n : Z) f, (0 <= n <= 65536)%Z -> (1 <= f)%nat ->
  call_fun [] conv_program f "converter.scsi_int_to_ba" [PInt (Z.of_N v); PInt n] = Ok (PBytes (int_to_ba v (Z.to_nat n))).
Proof. exact py_int_to_ba. Qed.

Theorem C10_py_ba_to_int : forall (b : bytes) f, (Z.of_nat (length b) <= 65536)%Z -> (1 <= f)%nat ->
  call_fun [] conv_program f "converter.scsi_ba_to_int" [PBytes b] = Ok (PInt (Z.of_N (ba_to_int b))).
Proof. exact py_ba_to_int. Qed.

(* decode_bits(data, TABLE, result): the dictionary it leaves in `result` is the model's decode_bits, merged into what was there *)
Theorem C10_py_decode_bits : forall (L : layout) (data : bytes) (cur : list (string * pv)) f r,
  forallb (fun kf => fdesc_py_ok (snd kf)) L = true -> names_distinct (map fst L) = true ->
  Forall (fun kf => (fdesc_fuel (snd kf) <= f)%nat) L ->
  decode_bits data L = Ok r ->
  call_fun [] conv_program (S f) "converter.decode_bits" [PBytes data; pv_of_layout L; PDict cur]
  = Ok (PDict (dict_update cur (dict_of_decoded r))).
Proof. exact py_decode_bits_refines. Qed.

(* encode_dict(data_dict, TABLE, result): the buffer it leaves in `result` is the model's encode_dict *)
Theorem C10_py_encode_dict : forall (L : layout) (dv : list (string * value)) (r r' : bytes) f,
  forallb (fun kf => fdesc_py_ok (snd kf)) L = true -> Forall (fun kf => (fdesc_fuel (snd kf) <= f)%nat) L ->
  names_distinct (map fst dv) = true -> values_ok dv -> bytes_ok r ->
  encode_dict dv L r = Ok r' ->
  call_fun [] conv_program (S f) "converter.encode_dict" [PDict (dict_of_decoded dv); pv_of_layout L; PBytes r] = Ok (PBytes r').
Proof. exact py_encode_dict_refines. Qed.

(* the hypotheses are met by every one of the library's own (regenerated) tables, with one fuel bound for all of them *)
Theorem C10_py_every_table_in_scope : forall t L, In (t, L) all_tables ->
  forallb (fun kf => fdesc_py_ok (snd kf)) L = true /\ names_distinct (map fst L) = true /\
  forall f, (Z.to_nat 4200 <= f)%nat -> Forall (fun kf => (fdesc_fuel (snd kf) <= f)%nat) L.
Proof.
  assert (H : forallb (fun tl => forallb (fun kf => fdesc_py_ok (snd kf)) (snd tl) && names_distinct (map fst (snd tl))) all_tables = true)
    by (vm_compute; reflexivity).
  intros t L Hin. rewrite forallb_forall in H. specialize (H _ Hin). cbn [snd] in H. apply andb_prop in H. destruct H as [H1 H2].
  split; [exact H1|]. split; [exact H2|]. intros f Hf. now apply fuel_bound.
Qed.
