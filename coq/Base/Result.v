(* Base/Result.v — Python exceptions as values. *)
From Coq Require Import String.
From PS Require Import Base.Bytes.

Inductive exn :=
| KeyError | IndexError | ValueError | TypeError | AttributeError | NotImplementedError
| MissingBlocksize | OpcodeException | StopIteration | RuntimeError | OSError
| CheckConditionE (sense : bytes) | ConditionsMet | BusyStatus | ReservationConflict
| TaskSetFull | ACAActive | TaskAborted
| Diverges            (* a Python loop that does not terminate / model fuel exhausted *)
| OtherExn (name : string).

Inductive result (A : Type) := Ok (a : A) | Raise (e : exn).
Arguments Ok {A} a.
Arguments Raise {A} e.

Definition bind {A B} (r : result A) (f : A -> result B) : result B :=
  match r with Ok a => f a | Raise e => Raise e end.

Notation "'do' x <- r ; k" := (bind r (fun x => k)) (at level 200, x name, r at level 100, k at level 200).

Definition is_ok {A} (r : result A) : bool := match r with Ok _ => true | Raise _ => false end.
