(* Base/Bytes.v — bytes as lists of N, big-endian integer view, bit lemmas.
   Stdlib only.  Every lemma here is closed under the global context. *)
From Coq Require Export NArith Arith List Lia Bool.
Export ListNotations.
Open Scope N_scope.
#[global] Arguments N.mul : simpl never.
#[global] Arguments N.add : simpl never.
#[global] Arguments N.sub : simpl never.
#[global] Arguments N.pow : simpl never.
#[global] Arguments N.div : simpl never.
#[global] Arguments N.modulo : simpl never.
#[global] Arguments N.shiftl : simpl never.
#[global] Arguments N.shiftr : simpl never.
#[global] Arguments N.land : simpl never.
#[global] Arguments N.lxor : simpl never.
#[global] Arguments N.testbit : simpl never.
#[global] Arguments N.leb : simpl never.
#[global] Arguments N.ltb : simpl never.
#[global] Arguments N.eqb : simpl never.

Definition byte := N.
Definition bytes := list N.

Definition bytes_ok (l : bytes) : Prop := Forall (fun b => b < 256) l.
Definition bytes_okb (l : bytes) : bool := forallb (fun b => b <? 256) l.

Lemma bytes_okb_spec l : bytes_okb l = true <-> bytes_ok l.
Proof.
  unfold bytes_okb, bytes_ok. rewrite forallb_forall, Forall_forall.
  split; intros H x Hx; specialize (H x Hx); [now apply N.ltb_lt in H| now apply N.ltb_lt].
Qed.

(* python: sum(ba[i] << ((len(ba)-1-i)*8) for i in range(len(ba))) *)
Fixpoint ba_to_int (l : bytes) : N :=
  match l with [] => 0 | b :: r => b * 256 ^ (N.of_nat (length r)) + ba_to_int r end.

(* python: bytearray((v >> i*8) & 0xFF for i in reversed(range(n))) *)
Fixpoint int_to_ba (v : N) (n : nat) : bytes :=
  match n with
  | O => []
  | S k => (N.shiftr v (8 * N.of_nat k)) mod 256 :: int_to_ba v k
  end.

Definition zeros (n : nat) : bytes := repeat 0 n.

(* python clamping slice  data[a:b]  for 0 <= a, 0 <= b *)
Definition slice (l : bytes) (a b : nat) : bytes := firstn (b - a) (skipn a l).

(* ---------- small list lemmas missing from 8.16 ---------- *)

Lemma skipn_skipn' {A} (m n : nat) (l : list A) : skipn m (skipn n l) = skipn (n + m) l.
Proof.
  revert l; induction n as [|n IH]; intros l; [reflexivity|].
  destruct l; [now rewrite !skipn_nil|]. cbn [skipn plus]. apply IH.
Qed.

Lemma bytes_ok_app a b : bytes_ok (a ++ b) <-> bytes_ok a /\ bytes_ok b.
Proof. apply Forall_app. Qed.

Lemma bytes_ok_firstn n l : bytes_ok l -> bytes_ok (firstn n l).
Proof. intros H. rewrite <- (firstn_skipn n l) in H. apply bytes_ok_app in H. tauto. Qed.

Lemma bytes_ok_skipn n l : bytes_ok l -> bytes_ok (skipn n l).
Proof. intros H. rewrite <- (firstn_skipn n l) in H. apply bytes_ok_app in H. tauto. Qed.

Lemma bytes_ok_slice l a b : bytes_ok l -> bytes_ok (slice l a b).
Proof. intros H. unfold slice. now apply bytes_ok_firstn, bytes_ok_skipn. Qed.

Lemma bytes_ok_zeros n : bytes_ok (zeros n).
Proof. unfold zeros, bytes_ok. apply Forall_forall. intros x Hx. apply repeat_spec in Hx. subst. lia. Qed.

Lemma zeros_length n : length (zeros n) = n.
Proof. apply repeat_length. Qed.

Lemma slice_length l a b : (b <= length l)%nat -> length (slice l a b) = (b - a)%nat.
Proof. intros H. unfold slice. rewrite firstn_length, skipn_length. lia. Qed.

(* ---------- integer view ---------- *)

Lemma ba_to_int_app a b :
  ba_to_int (a ++ b) = ba_to_int a * 256 ^ N.of_nat (length b) + ba_to_int b.
Proof.
  induction a as [|x a IH]; cbn [ba_to_int app]; [lia|].
  rewrite IH, app_length, Nat2N.inj_add, N.pow_add_r. lia.
Qed.

Lemma ba_to_int_bound l : bytes_ok l -> ba_to_int l < 256 ^ N.of_nat (length l).
Proof.
  induction 1 as [|x l Hx Hl IH]; cbn [ba_to_int length]; [cbn; lia|].
  rewrite Nat2N.inj_succ, N.pow_succ_r'. nia.
Qed.

Lemma ba_to_int_zeros n : ba_to_int (zeros n) = 0.
Proof. induction n as [|n IH]; cbn [zeros repeat ba_to_int]; [reflexivity|]. fold (zeros n). rewrite IH. lia. Qed.

Lemma pow256 k : 256 ^ k = 2 ^ (8 * k).
Proof. now rewrite N.pow_mul_r. Qed.

(* bit view of a high/low concatenation *)
Lemma testbit_concat a b k n : b < 2^k ->
  N.testbit (a * 2^k + b) n = if n <? k then N.testbit b n else N.testbit a (n - k).
Proof.
  intros Hb. destruct (N.ltb_spec n k) as [Hn|Hn].
  - rewrite <- (N.mod_pow2_bits_low (a * 2^k + b) k n Hn).
    rewrite N.add_comm, N.mod_add by (apply N.pow_nonzero; lia).
    now rewrite N.mod_small.
  - replace n with ((n - k) + k) at 1 by lia.
    rewrite <- N.div_pow2_bits.
    rewrite N.div_add_l by (apply N.pow_nonzero; lia).
    now rewrite N.div_small, N.add_0_r.
Qed.

Lemma lt_pow2_bits x k : (forall n, k <= n -> N.testbit x n = false) -> x < 2^k.
Proof.
  intros H. destruct (N.eq_dec x 0) as [->|Hx]; [apply N.neq_0_lt_0, N.pow_nonzero; lia|].
  destruct (N.lt_ge_cases x (2^k)) as [|Hge]; [assumption|exfalso].
  apply N.log2_le_pow2 in Hge; [|lia].
  specialize (H _ Hge). rewrite N.bit_log2 in H by assumption. discriminate.
Qed.

Lemma bits_above x k n : x < 2^k -> k <= n -> N.testbit x n = false.
Proof.
  intros Hx Hn. destruct (N.eq_dec x 0) as [->|Hne]; [apply N.bits_0|].
  apply N.bits_above_log2. apply N.log2_lt_pow2 in Hx; lia.
Qed.

Lemma lxor_lt b d k : b < 2^k -> d < 2^k -> N.lxor b d < 2^k.
Proof.
  intros Hb Hd. apply lt_pow2_bits. intros n Hn.
  now rewrite N.lxor_spec, (bits_above b k n), (bits_above d k n).
Qed.

Lemma lxor_split a b c d k : b < 2^k -> d < 2^k ->
  N.lxor (a * 2^k + b) (c * 2^k + d) = N.lxor a c * 2^k + N.lxor b d.
Proof.
  intros Hb Hd. pose proof (lxor_lt b d k Hb Hd) as Hx.
  apply N.bits_inj; intro n.
  rewrite N.lxor_spec, !testbit_concat by assumption.
  destruct (n <? k); now rewrite N.lxor_spec.
Qed.

(* ---------- int_to_ba ---------- *)

Lemma int_to_ba_length v n : length (int_to_ba v n) = n.
Proof. induction n as [|n IH]; cbn [int_to_ba length]; congruence. Qed.

Lemma int_to_ba_ok v n : bytes_ok (int_to_ba v n).
Proof.
  induction n as [|n IH]; cbn [int_to_ba]; constructor; [|exact IH].
  apply N.mod_lt. lia.
Qed.

Lemma ba_to_int_to_ba v n : ba_to_int (int_to_ba v n) = v mod 256 ^ N.of_nat n.
Proof.
  induction n as [|n IH]; cbn [int_to_ba ba_to_int].
  - cbn. now rewrite N.mod_1_r.
  - rewrite int_to_ba_length, IH, Nat2N.inj_succ, N.pow_succ_r'.
    rewrite N.shiftr_div_pow2, <- pow256.
    set (P := 256 ^ N.of_nat n).
    assert (HP : P <> 0) by (apply N.pow_nonzero; lia).
    rewrite (N.mul_comm 256 P), N.mod_mul_r by lia. lia.
Qed.

Lemma int_to_ba_low a b n k : (k <= n)%nat ->
  int_to_ba (a * 256 ^ N.of_nat n + b) k = int_to_ba b k.
Proof.
  induction k as [|k IH]; intros Hk; cbn [int_to_ba]; [reflexivity|].
  f_equal; [|apply IH; lia].
  rewrite !N.shiftr_div_pow2, <- !pow256.
  replace (N.of_nat n) with (N.of_nat (n - k - 1) + 1 + N.of_nat k) by lia.
  rewrite !N.pow_add_r, N.pow_1_r.
  set (P := 256 ^ N.of_nat k). set (Q := 256 ^ N.of_nat (n - k - 1)).
  assert (HP : P <> 0) by (apply N.pow_nonzero; lia).
  replace (a * (Q * 256 * P) + b) with ((a * Q * 256) * P + b) by lia.
  rewrite N.div_add_l by assumption.
  rewrite N.add_comm, N.mod_add by lia. reflexivity.
Qed.

Lemma int_to_ba_to_int l : bytes_ok l -> int_to_ba (ba_to_int l) (length l) = l.
Proof.
  induction 1 as [|x l Hx Hl IH]; [reflexivity|].
  cbn [length int_to_ba]. f_equal.
  - cbn [ba_to_int]. rewrite N.shiftr_div_pow2, <- pow256.
    pose proof (ba_to_int_bound l Hl) as B.
    rewrite N.div_add_l by (apply N.pow_nonzero; lia).
    rewrite N.div_small by assumption. rewrite N.add_0_r. now apply N.mod_small.
  - cbn [ba_to_int]. rewrite int_to_ba_low by lia. exact IH.
Qed.

(* big-endian: byte i of int_to_ba v n is (v / 256^(n-1-i)) mod 256 *)
Lemma int_to_ba_nth v n i : (i < n)%nat ->
  nth i (int_to_ba v n) 0 = (v / 256 ^ N.of_nat (n - 1 - i)) mod 256.
Proof.
  revert i; induction n as [|n IH]; intros i Hi; [lia|].
  cbn [int_to_ba]. destruct i as [|i]; cbn [nth].
  - rewrite N.shiftr_div_pow2, <- pow256. do 3 f_equal. lia.
  - rewrite IH by lia. do 3 f_equal. lia.
Qed.
