(* Spec/ParamRules.v — the length fields of the parameter data the library composes (SPC-4 / SBC-3 / SMC-3):
   where each field is and from which byte on it counts. Written by hand from the standards. *)
From Coq Require Import String NArith List.
Import ListNotations.
Open Scope string_scope.

(* builder, first byte of the length field, one past its last byte, the byte from which the field counts
   (the field holds  total length - that byte).  All count the bytes that follow the field itself, except
   LUN LIST LENGTH, which also skips the four reserved bytes after it (SPC-4 6.33). *)
Definition length_rules : list (string * (nat * nat * nat)) := [
  ("scsi_cdb_modesense6.ModeSense6.marshall_datain", (0, 1, 1)%nat);                          (* MODE DATA LENGTH (n-0) *)
  ("scsi_cdb_modesense10.ModeSense10.marshall_datain", (0, 2, 2)%nat);                        (* MODE DATA LENGTH (n-1) *)
  ("scsi_cdb_persistentreservein.PersistentReserveInReadFullStatus.marshall_transport_id", (2, 4, 4)%nat);   (* iSCSI ADDITIONAL LENGTH (n-3) *)
  ("scsi_cdb_inquiry.Inquiry.marshall_datain", (2, 4, 4)%nat);                                (* PAGE LENGTH (n-3) *)
  ("scsi_cdb_inquiry.Inquiry.marshall_designation_descriptor", (3, 4, 4)%nat);                (* DESIGNATOR LENGTH (n-3) *)
  ("scsi_cdb_extended_copy_spc4.ExtendedCopy.marshall_designator_descriptor", (3, 4, 4)%nat);
  ("scsi_cdb_extended_copy_spc5.ExtendedCopy.marshall_designator_descriptor", (3, 4, 4)%nat);
  ("scsi_cdb_getlbastatus.GetLBAStatus.marshall_datain", (0, 4, 4)%nat);                      (* PARAMETER DATA LENGTH (n-3) *)
  ("scsi_cdb_report_luns.ReportLuns.marshall_datain", (0, 4, 8)%nat);                         (* LUN LIST LENGTH (n-7) *)
  ("scsi_cdb_report_priority.ReportPriority.marshall_datain", (0, 4, 4)%nat);
  ("scsi_cdb_report_target_port_groups.ReportTargetPortGroups.marshall_datain", (0, 4, 4)%nat);   (* RETURN DATA LENGTH (n-3) *)
  ("scsi_cdb_readelementstatus.ReadElementStatus.marshall_datain", (5, 8, 8)%nat)].            (* BYTE COUNT OF REPORT AVAILABLE (n-7) *)

(* the formats of Spec/RespFormats.v that are parameter lists SENT to the device, with the length of their fixed part *)
Definition param_formats : list string := [
  "prout_basic"; "prout_register_and_move"; "transport_id_header"; "xcopy_lid1_header"; "xcopy_lid4_header";
  "xcopy_target_descriptor"; "xcopy_target_sequential"; "xcopy_cscd_descriptor"; "xcopy_identification_designator";
  "xcopy_segment_block_stream"; "xcopy_segment_block_block"; "xcopy5_segment_block_stream"; "xcopy5_segment_stream_block";
  "xcopy5_segment_block_block"; "mode_header6"; "mode_header10"; "mode_page_0"; "mode_sub_page"; "mode_control";
  "mode_control_extension"; "mode_disconnect_reconnect"; "mode_element_address"].
