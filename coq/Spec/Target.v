(* Spec/Target.v — a standards-conformant direct-access block target, written from SBC-3 / SPC-4 / SAM-5 and
   NOT from the library: it decodes the command descriptor block at the byte/bit positions the standards
   assign, keeps a medium of [t_nblk] logical blocks of [t_bs] bytes, and answers READ/WRITE(10/12/16),
   WRITE SAME(10/16), SYNCHRONIZE CACHE(10/16), READ CAPACITY(10/16) and the standard INQUIRY.
   Everything else, and every out-of-range request, is answered with CHECK CONDITION.
   The abstract medium ("the data last written to each logical block") is at the end of the file. *)
From Coq Require Import NArith List Bool.
Import ListNotations.
From PS Require Import Base.Bytes.
Open Scope N_scope.

(* the field of [w] bits whose most significant bit is bit [msb] of byte [byte] (MSB first, continuing
   into the following bytes) of the CDB [r] *)
Definition rd (r : bytes) (byte msb w : N) : N :=
  (ba_to_int r / 2 ^ (8 * (N.of_nat (length r) - byte - 1) + msb + 1 - w)) mod 2 ^ w.

Record target := mkT {
  t_bs : N;                 (* logical block length in bytes *)
  t_nblk : N;               (* number of logical blocks *)
  t_ident : bytes;          (* standard INQUIRY data *)
  t_disk : N -> bytes }.    (* contents of each logical block *)

Inductive tresp := TGood (datain : bytes) | TCheck.

Fixpoint read_blocks (disk : N -> bytes) (lba : N) (n : nat) : bytes :=
  match n with O => [] | S n' => disk lba ++ read_blocks disk (lba + 1) n' end.

Definition block_of (bs : N) (data : bytes) (i : N) : bytes :=
  slice data (N.to_nat (i * bs)) (N.to_nat ((i + 1) * bs)).

Definition covers (lba n a : N) : bool := (lba <=? a) && (a <? lba + n).

Definition t_read (t : target) (lba tl : N) : target * tresp :=
  if lba + tl <=? t_nblk t then (t, TGood (read_blocks (t_disk t) lba (N.to_nat tl))) else (t, TCheck).

Definition t_write (t : target) (lba tl : N) (data : bytes) : target * tresp :=
  if (lba + tl <=? t_nblk t) && (N.of_nat (length data) =? tl * t_bs t)
  then (mkT (t_bs t) (t_nblk t) (t_ident t)
            (fun a => if covers lba tl a then block_of (t_bs t) data (a - lba) else t_disk t a), TGood [])
  else (t, TCheck).

(* NUMBER OF LOGICAL BLOCKS = 0 is refused (a target reporting WSNZ = 1, SBC-3 5.44) *)
Definition t_write_same (t : target) (lba nb : N) (blk : bytes) : target * tresp :=
  if (1 <=? nb) && (lba + nb <=? t_nblk t) && (N.of_nat (length blk) =? t_bs t)
  then (mkT (t_bs t) (t_nblk t) (t_ident t) (fun a => if covers lba nb a then blk else t_disk t a), TGood [])
  else (t, TCheck).

Definition t_sync (t : target) (lba n : N) : target * tresp :=
  if lba + n <=? t_nblk t then (t, TGood []) else (t, TCheck).

Definition readcap10_data (t : target) : bytes :=
  int_to_ba (N.min (t_nblk t - 1) 0xFFFFFFFF) 4 ++ int_to_ba (t_bs t) 4.

(* RETURNED LOGICAL BLOCK ADDRESS, LOGICAL BLOCK LENGTH IN BYTES, no protection, one logical block per physical
   block, no provisioning management, lowest aligned LBA 0, 16 reserved bytes *)
Definition readcap16_data (t : target) : bytes :=
  int_to_ba (t_nblk t - 1) 8 ++ int_to_ba (t_bs t) 4 ++ zeros 20.

Definition truncate (alloc : N) (d : bytes) : bytes := firstn (N.to_nat alloc) d.

(* dispatch on the OPERATION CODE (byte 0) and the CDB length SAM-5 assigns to its group *)
Definition is (opc : N) (len : nat) (code : N) (n : nat) : bool := (opc =? code) && Nat.eqb len n.

Definition t_dispatch (t : target) (opc : N) (len : nat) (cdb dataout : bytes) : target * tresp :=
  if 1 <=? t_nblk t then
    if is opc len 0x28 10 then t_read t (rd cdb 2 7 32) (rd cdb 7 7 16)
    else if is opc len 0xA8 12 then t_read t (rd cdb 2 7 32) (rd cdb 6 7 32)
    else if is opc len 0x88 16 then t_read t (rd cdb 2 7 64) (rd cdb 10 7 32)
    else if is opc len 0x2A 10 then t_write t (rd cdb 2 7 32) (rd cdb 7 7 16) dataout
    else if is opc len 0xAA 12 then t_write t (rd cdb 2 7 32) (rd cdb 6 7 32) dataout
    else if is opc len 0x8A 16 then t_write t (rd cdb 2 7 64) (rd cdb 10 7 32) dataout
    else if is opc len 0x41 10 then t_write_same t (rd cdb 2 7 32) (rd cdb 7 7 16) dataout
    else if is opc len 0x93 16 then
      (* NDOB (byte 1 bit 0): no data-out buffer, the blocks are written with zeros *)
      if rd cdb 1 0 1 =? 1
      then match dataout with
           | [] => t_write_same t (rd cdb 2 7 64) (rd cdb 10 7 32) (zeros (N.to_nat (t_bs t)))
           | _ => (t, TCheck)
           end
      else t_write_same t (rd cdb 2 7 64) (rd cdb 10 7 32) dataout
    else if is opc len 0x35 10 then t_sync t (rd cdb 2 7 32) (rd cdb 7 7 16)
    else if is opc len 0x91 16 then t_sync t (rd cdb 2 7 64) (rd cdb 10 7 32)
    else if is opc len 0x25 10 then (t, TGood (readcap10_data t))
    else if is opc len 0x9E 16 then
      if rd cdb 1 4 5 =? 0x10 then (t, TGood (truncate (rd cdb 10 7 32) (readcap16_data t))) else (t, TCheck)
    else if is opc len 0x12 6 then
      if rd cdb 1 0 1 =? 0 then (t, TGood (truncate (rd cdb 3 7 16) (t_ident t))) else (t, TCheck)
    else (t, TCheck)
  else (t, TCheck).

Definition t_exec (t : target) (cdb dataout : bytes) : target * tresp :=
  t_dispatch t (rd cdb 0 7 8) (length cdb) cdb dataout.

(* ---------- the abstract medium: what each logical block holds after a history of writes ---------- *)

Inductive wr := Wr (lba n : N) (data : bytes)        (* n blocks starting at lba, taken consecutively from data *)
              | WrSame (lba n : N) (blk : bytes).    (* the same block n times *)

(* most recent write first: the block last written to address a, or the initial contents *)
Fixpoint latest (bs : N) (init : N -> bytes) (recent_first : list wr) (a : N) : bytes :=
  match recent_first with
  | [] => init a
  | Wr lba n data :: older => if covers lba n a then block_of bs data (a - lba) else latest bs init older a
  | WrSame lba n blk :: older => if covers lba n a then blk else latest bs init older a
  end.
