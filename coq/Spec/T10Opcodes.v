(* Spec/T10Opcodes.v — operation codes and service actions as assigned by T10
   (SPC-4/5, SBC-3, SSC-4, SMC-3, MMC-6, SAT-3, SCC-2; T10 "op-num" list), keyed by the
   command's standard name with blanks/dashes/parentheses turned into underscores.
   Written by hand from the standards, not from the library's tables. *)
From Coq Require Import String NArith List.
Import ListNotations.
Open Scope string_scope.
Open Scope N_scope.

(* the hexadecimal numbers below are written as decimal N via this helper for readability *)
Definition h (hi lo : N) : N := hi * 16 + lo.
Definition xA := 10. Definition xB := 11. Definition xC := 12. Definition xD := 13. Definition xE := 14. Definition xF := 15.

Definition t10_opcodes : list (string * N) := [
  (* SPC *)
  ("TEST_UNIT_READY", h 0 0); ("REQUEST_SENSE", h 0 3); ("INQUIRY", h 1 2);
  ("MODE_SELECT_6", h 1 5); ("MODE_SENSE_6", h 1 xA); ("MODE_SELECT_10", h 5 5); ("MODE_SENSE_10", h 5 xA);
  ("RECEIVE_DIAGNOSTIC_RESULTS", h 1 xC); ("SEND_DIAGNOSTIC", h 1 xD); ("PREVENT_ALLOW_MEDIUM_REMOVAL", h 1 xE);
  ("WRITE_BUFFER", h 3 xB); ("READ_BUFFER_10", h 3 xC); ("READ_BUFFER_16", h 9 xB);
  ("LOG_SELECT", h 4 xC); ("LOG_SENSE", h 4 xD);
  ("PERSISTENT_RESERVE_IN", h 5 xE); ("PERSISTENT_RESERVE_OUT", h 5 xF);
  ("EXTENDED_COPY", h 8 3); ("RECEIVE_COPY_RESULTS", h 8 4);
  ("ACCESS_CONTROL_IN", h 8 6); ("ACCESS_CONTROL_OUT", h 8 7);
  ("READ_ATTRIBUTE", h 8 xC); ("WRITE_ATTRIBUTE", h 8 xD);
  ("REPORT_LUNS", h xA 0); ("SECURITY_PROTOCOL_IN", h xA 2); ("SECURITY_PROTOCOL_OUT", h xB 5);
  ("MAINTENANCE_IN", h xA 3); ("MAINTENANCE_OUT", h xA 4);
  ("READ_MEDIA_SERIAL_NUMBER", h xA xB); ("REPORT_ALIAS", h xA 3);
  ("RESERVE_6", h 1 6); ("RELEASE_6", h 1 7); ("RESERVE_10", h 5 6); ("RELEASE_10", h 5 7);
  (* SAT *)
  ("ATA_PASS_THROUGH_12", h xA 1); ("ATA_PASS_THROUGH_16", h 8 5);
  (* SBC *)
  ("FORMAT_UNIT", h 0 4); ("REASSIGN_BLOCKS", h 0 7); ("READ_6", h 0 8); ("WRITE_6", h 0 xA);
  ("START_STOP_UNIT", h 1 xB); ("READ_CAPACITY_10", h 2 5); ("READ_10", h 2 8); ("WRITE_10", h 2 xA);
  ("WRITE_AND_VERIFY_10", h 2 xE); ("VERIFY_10", h 2 xF); ("PRE_FETCH_10", h 3 4);
  ("SYNCHRONIZE_CACHE_10", h 3 5); ("READ_DEFECT_DATA_10", h 3 7); ("READ_LONG_10", h 3 xE);
  ("WRITE_LONG_10", h 3 xF); ("WRITE_SAME_10", h 4 1); ("UNMAP", h 4 2);
  ("XDWRITE_10", h 5 0); ("XPWRITE_10", h 5 1); ("XDREAD_10", h 5 2); ("XDWRITEREAD_10", h 5 3);
  ("READ_16", h 8 8); ("COMPARE_AND_WRITE", h 8 9); ("WRITE_16", h 8 xA); ("ORWRITE_16", h 8 xB);
  ("WRITE_AND_VERIFY_16", h 8 xE); ("VERIFY_16", h 8 xF); ("PRE_FETCH_16", h 9 0);
  ("SYNCHRONIZE_CACHE_16", h 9 1); ("WRITE_SAME_16", h 9 3);
  ("READ_LONG_16", h 9 xE); ("WRITE_LONG_16", h 9 xF);
  ("READ_12", h xA 8); ("WRITE_12", h xA xA); ("WRITE_AND_VERIFY_12", h xA xE); ("VERIFY_12", h xA xF);
  ("READ_DEFECT_DATA_12", h xB 7);
  (* SCC-2 *)
  ("REDUNDANCY_GROUP_IN", h xB xA); ("REDUNDANCY_GROUP_OUT", h xB xB); ("SPARE_IN", h xB xC); ("SPARE_OUT", h xB xD);
  ("VOLUME_SET_IN", h xB xE); ("VOLUME_SET_OUT", h xB xF);
  (* SSC *)
  ("REWIND", h 0 1); ("FORMAT_MEDIUM", h 0 4); ("READ_BLOCK_LIMITS", h 0 5); ("SET_CAPACITY", h 0 xB);
  ("READ_REVERSE_6", h 0 xF); ("WRITE_FILEMARKS_6", h 1 0); ("SPACE_6", h 1 1); ("VERIFY_6", h 1 3);
  ("RECOVER_BUFFERED_DATA", h 1 4); ("LOAD_UNLOAD", h 1 xB); ("READ_POSITION", h 3 4);
  ("REPORT_DENSITY_SUPPORT", h 4 4); ("WRITE_FILEMARKS_16", h 8 0); ("READ_REVERSE_16", h 8 1);
  ("SPACE_16", h 9 1); ("LOCATE_16", h 9 2); ("ERASE_16", h 9 3);
  ("MOVE_MEDIUM_ATTACHED", h xA 7); ("READ_ELEMENT_STATUS_ATTACHED", h xB 4);
  (* SMC *)
  ("INITIALIZE_ELEMENT_STATUS", h 0 7); ("INITIALIZE_ELEMENT_STATUS_WITH_RANGE", h 3 7);
  ("OPEN_CLOSE_IMPORT_EXPORT_ELEMENT", h 1 xB); ("POSITION_TO_ELEMENT", h 2 xB);
  ("REPORT_VOLUME_TYPES_SUPPORTED", h 4 4); ("MOVE_MEDIUM", h xA 5); ("EXCHANGE_MEDIUM", h xA 6);
  ("REQUEST_VOLUME_ELEMENT_ADDRESS", h xB 5); ("SEND_VOLUME_TAG", h xB 6); ("READ_ELEMENT_STATUS", h xB 8);
  (* MMC *)
  ("READ_FORMAT_CAPACITIES", h 2 3); ("READ_CAPACITY", h 2 5); ("SEEK_10", h 2 xB);
  ("SYNCHRONIZE_CACHE", h 3 5); ("READ_TOC_PMA_ATIP", h 4 3); ("GET_CONFIGURATION", h 4 6);
  ("GET_EVENT_STATUS_NOTIFICATION", h 4 xA); ("READ_DISC_INFORMATION", h 5 1); ("READ_TRACK_INFORMATION", h 5 2);
  ("RESERVE_TRACK", h 5 3); ("SEND_OPC_INFORMATION", h 5 4); ("REPAIR_TRACK", h 5 8);
  ("CLOSE_TRACK_SESSION", h 5 xB); ("READ_BUFFER_CAPACITY", h 5 xC); ("SEND_CUE_SHEET", h 5 xD);
  ("BLANK", h xA 1); ("SEND_KEY", h xA 3); ("REPORT_KEY", h xA 4); ("LOAD_UNLOAD_MEDIUM", h xA 6);
  ("SET_READ_AHEAD", h xA 7); ("GET_PERFORMANCE", h xA xC); ("READ_DISC_STRUCTURE", h xA xD);
  ("SET_STREAMING", h xB 6); ("READ_CD_MSF", h xB 9); ("SET_CD_SPEED", h xB xB); ("MECHANISM_STATUS", h xB xD);
  ("READ_CD", h xB xE); ("SEND_DISC_STRUCTURE", h xB xF)
].

(* service actions, by name (the names are unique across the service-action opcodes the library lists) *)
Definition t10_service_actions : list (string * N) := [
  (* MAINTENANCE IN A3h (SPC) *)
  ("REPORT_IDENTIFYING_INFORMATION", 5); ("REPORT_DEVICE_IDENTIFIER", 5); ("REPORT_TARGET_PORT_GROUPS", h 0 xA);
  ("REPORT_ALIASES", h 0 xB); ("REPORT_ALIAS", h 0 xB); ("REPORT_SUPPORTED_OPERATION_CODES", h 0 xC);
  ("REPORT_SUPPORTED_TASK_MANAGEMENT_FUNCTIONS", h 0 xD); ("REPORT_PRIORITY", h 0 xE); ("REPORT_TIMESTAMP", h 0 xF);
  ("REQUEST_DATA_TRANSFER_ELEMENT_INQUIRY", 6);
  (* MAINTENANCE OUT A4h (SPC) *)
  ("SET_IDENTIFYING_INFORMATION", 6); ("SET_DEVICE_IDENTIFIER", 6); ("SET_TARGET_PORT_GROUPS", h 0 xA);
  ("CHANGE_ALIASES", h 0 xB); ("SET_PRIORITY", h 0 xE); ("SET_TIMESTAMP", h 0 xF);
  (* MAINTENANCE IN / OUT (SCC-2) *)
  ("REPORT_ASSIGNED_UNASSIGNED_P_EXTENT", 0); ("REPORT_COMPONENT_DEVICE", 1); ("REPORT_COMPONENT_DEVICE_ATTACHMENTS", 2);
  ("REPORT_PERIPHERAL_DEVICE", 3); ("REPORT_PERIPHERAL_DEVICE_ASSOCIATIONS", 4);
  ("REPORT_PERIPHERAL_DEVICE_COMPONENT_DEVICE_IDENTIFIER", 5); ("REPORT_STATES", 6); ("REPORT_DEVICE_IDENTIFICATION", 7);
  ("REPORT_UNCONFIGURED_CAPACITY", 8); ("REPORT_SUPPORTED_CONFIGURATION_METHOD", 9);
  ("ADD_PERIPHERAL_DEVICE_COMPONENT_DEVICE", 0); ("ATTACH_TO_COMPONENT_DEVICE", 1); ("EXCHANGE_P_EXTENT", 2);
  ("EXCHANGE_PERIPHERAL_DEVICE_COMPONENT_DEVICE", 3); ("INSTRUCT_COMPONENT_DEVICE", 4);
  ("REMOVE_PERIPHERAL_DEVICE_COMPONENT_DEVICE", 5); ("SET_PERIPHERAL_DEVICE_COMPONENT_DEVICE_IDENTIFIER", 6);
  ("BREAK_PERIPHERAL_DEVICE_COMPONENT_DEVICE", 7);
  (* variable length CDB 7Fh (SBC) *)
  ("XDREAD_32", 3); ("XDWRITE_32", 4); ("XPWRITE_32", 6); ("XDWRITEREAD_32", 7); ("READ_32", 9); ("VERIFY_32", h 0 xA);
  ("WRITE_32", h 0 xB); ("WRITE_AND_VERIFY_32", h 0 xC); ("WRITE_SAME_32", h 0 xD); ("ORWRITE_32", h 0 xE);
  (* SERVICE ACTION IN(16) 9Eh / OUT(16) 9Fh (SBC) *)
  ("READ_CAPACITY_16", h 1 0); ("READ_LONG_16", h 1 1); ("GET_LBA_STATUS", h 1 2); ("REPORT_REFERRALS", h 1 3);
  ("WRITE_LONG_16", h 1 1);
  (* PERSISTENT RESERVE IN 5Eh / OUT 5Fh (SPC) *)
  ("READ_KEYS", 0); ("READ_RESERVATION", 1); ("REPORT_CAPABILITIES", 2); ("READ_FULL_STATUS", 3);
  ("REGISTER", 0); ("RESERVE", 1); ("RELEASE", 2); ("CLEAR", 3); ("PREEMPT", 4); ("PREEMPT_AND_ABORT", 5);
  ("REGISTER_AND_IGNORE_EXISTING_KEY", 6); ("REGISTER_AND_MOVE", 7); ("REPLACE_LOST_REGISTRATION", 8);
  (* SERVICE ACTION IN(12) ABh *)
  ("READ_MEDIA_SERIAL_NUMBER", 1);
  (* OPEN/CLOSE IMPORT/EXPORT ELEMENT 1Bh action codes (SMC-3) *)
  ("OPEN_IMPORTEXPORT_ELEMENT", 0); ("CLOSE_IMPORTEXPORT_ELEMENT", 1)
].

(* commands whose T10 definition carries a service-action table the library must expose under them
   (the facade looks service actions up through the opcode object) *)
Definition required_service_actions : list (string * list (string * N)) := [
  ("PERSISTENT_RESERVE_IN", [("READ_KEYS", 0); ("READ_RESERVATION", 1); ("REPORT_CAPABILITIES", 2); ("READ_FULL_STATUS", 3)]);
  ("PERSISTENT_RESERVE_OUT", [("REGISTER", 0); ("RESERVE", 1); ("RELEASE", 2); ("CLEAR", 3); ("PREEMPT", 4);
                              ("PREEMPT_AND_ABORT", 5); ("REGISTER_AND_IGNORE_EXISTING_KEY", 6); ("REGISTER_AND_MOVE", 7)])
].
