(* Spec/CdbFormats.v — the CDB formats of the 42 command classes, in the standards' own notation
   (byte number, most significant bit of the field inside that byte, width in bits; fields wider
   than 8 bits continue MSB-first into the following bytes), written by hand from SPC-4/5, SBC-3,
   SMC-3, MMC-6 and SAT-3 — NOT from the library's mask tables.  Each field names where its
   value comes from: a constructor argument (the public parameter name), the operation code, a
   service action (by its T10 name), a constant, the parameter list length, or a named helper. *)
From Coq Require Import String NArith List.
Import ListNotations.
Open Scope string_scope.
Open Scope N_scope.

Inductive src :=
| Arg (x : string)          (* the caller's argument of that name *)
| Opcode                    (* OPERATION CODE, byte 0 *)
| SAct (name : string)      (* SERVICE ACTION: the T10 code of that service action *)
| Const (n : N)
| ParamListLen              (* PARAMETER LIST LENGTH: length of the data-out buffer *)
| Fn (fn x : string).       (* value computed by the named helper from argument x *)

Record sfield := F { sf_src : src; sf_byte : N; sf_msb : N; sf_width : N }.
Record cdb_spec := Spec { sp_len : nat; sp_fields : list sfield }.

Definition op0 := F Opcode 0 7 8.

(* ---- SBC-3 ---- *)
Definition rw_flags_r := [F (Arg "rdprotect") 1 7 3; F (Arg "dpo") 1 4 1; F (Arg "fua") 1 3 1; F (Arg "rarc") 1 2 1].
Definition rw_flags_w := [F (Arg "wrprotect") 1 7 3; F (Arg "dpo") 1 4 1; F (Arg "fua") 1 3 1].
Definition read10 := Spec 10 (op0 :: rw_flags_r ++ [F (Arg "lba") 2 7 32; F (Arg "group") 6 4 5; F (Arg "tl") 7 7 16]).
Definition read12 := Spec 12 (op0 :: rw_flags_r ++ [F (Arg "lba") 2 7 32; F (Arg "tl") 6 7 32; F (Arg "group") 10 4 5]).
Definition read16 := Spec 16 (op0 :: rw_flags_r ++ [F (Arg "lba") 2 7 64; F (Arg "tl") 10 7 32; F (Arg "group") 14 4 5]).
Definition write10 := Spec 10 (op0 :: rw_flags_w ++ [F (Arg "lba") 2 7 32; F (Arg "group") 6 4 5; F (Arg "tl") 7 7 16]).
Definition write12 := Spec 12 (op0 :: rw_flags_w ++ [F (Arg "lba") 2 7 32; F (Arg "tl") 6 7 32; F (Arg "group") 10 4 5]).
Definition write16 := Spec 16 (op0 :: rw_flags_w ++ [F (Arg "lba") 2 7 64; F (Arg "tl") 10 7 32; F (Arg "group") 14 4 5]).
Definition writesame10 := Spec 10 [op0; F (Arg "wrprotect") 1 7 3; F (Arg "anchor") 1 4 1; F (Arg "unmap") 1 3 1;
                                   F (Arg "lba") 2 7 32; F (Arg "group") 6 4 5; F (Arg "nb") 7 7 16].
Definition writesame16 := Spec 16 [op0; F (Arg "wrprotect") 1 7 3; F (Arg "anchor") 1 4 1; F (Arg "unmap") 1 3 1;
                                   F (Arg "ndob") 1 0 1; F (Arg "lba") 2 7 64; F (Arg "nb") 10 7 32; F (Arg "group") 14 4 5].
Definition synccache10 := Spec 10 [op0; F (Arg "immed") 1 1 1; F (Arg "lba") 2 7 32; F (Arg "group") 6 4 5; F (Arg "numblks") 7 7 16].
Definition synccache16 := Spec 16 [op0; F (Arg "immed") 1 1 1; F (Arg "lba") 2 7 64; F (Arg "numblks") 10 7 32; F (Arg "group") 14 4 5].
Definition readcapacity10 := Spec 10 [op0].
Definition readcapacity16 := Spec 16 [op0; F (SAct "READ_CAPACITY_16") 1 4 5; F (Arg "alloclen") 10 7 32].
Definition getlbastatus := Spec 16 [op0; F (SAct "GET_LBA_STATUS") 1 4 5; F (Arg "lba") 2 7 64; F (Arg "alloclen") 10 7 32].

(* ---- SPC-4 ---- *)
Definition testunitready := Spec 6 [op0].
Definition inquiry := Spec 6 [op0; F (Arg "evpd") 1 0 1; F (Arg "page_code") 2 7 8; F (Arg "alloclen") 3 7 16].
Definition modesense6 := Spec 6 [op0; F (Arg "dbd") 1 3 1; F (Arg "pc") 2 7 2; F (Arg "page_code") 2 5 6;
                                 F (Arg "sub_page_code") 3 7 8; F (Arg "alloclen") 4 7 8].
Definition modesense10 := Spec 10 [op0; F (Arg "llbaa") 1 4 1; F (Arg "dbd") 1 3 1; F (Arg "pc") 2 7 2; F (Arg "page_code") 2 5 6;
                                   F (Arg "sub_page_code") 3 7 8; F (Arg "alloclen") 7 7 16].
Definition modeselect6 := Spec 6 [op0; F (Arg "pf") 1 4 1; F (Arg "sp") 1 0 1; F ParamListLen 4 7 8].
Definition modeselect10 := Spec 10 [op0; F (Arg "pf") 1 4 1; F (Arg "sp") 1 0 1; F ParamListLen 7 7 16].
Definition reportluns := Spec 12 [op0; F (Arg "report") 2 7 8; F (Arg "alloclen") 6 7 32].
Definition reportpriority := Spec 12 [op0; F (SAct "REPORT_PRIORITY") 1 4 5; F (Arg "priority") 2 7 2; F (Arg "alloclen") 6 7 32].
Definition rtpg := Spec 12 [op0; F (Arg "data_format") 1 7 3; F (SAct "REPORT_TARGET_PORT_GROUPS") 1 4 5; F (Arg "alloclen") 6 7 32].
Definition prin := Spec 10 [op0; F (Arg "service_action") 1 4 5; F (Arg "alloclen") 7 7 16].
Definition prin_sa (sa : string) := Spec 10 [op0; F (SAct sa) 1 4 5; F (Arg "alloclen") 7 7 16].
Definition prout := Spec 10 [op0; F (Arg "service_action") 1 4 5; F (Arg "scope") 2 7 4; F (Arg "pr_type") 2 3 4; F ParamListLen 5 7 32].
Definition preventallow := Spec 6 [op0; F (Arg "prevent") 4 1 2].
Definition xcopy_lid1 := Spec 16 [op0; F ParamListLen 10 7 32].
Definition xcopy_lid4 := Spec 16 [op0; F (Const 1) 1 4 5; F ParamListLen 10 7 32].

(* ---- SMC-3 ---- *)
Definition movemedium := Spec 12 [op0; F (Arg "xfer") 2 7 16; F (Arg "source") 4 7 16; F (Arg "dest") 6 7 16; F (Arg "invert") 10 0 1].
Definition exchangemedium := Spec 12 [op0; F (Arg "xfer") 2 7 16; F (Arg "source") 4 7 16; F (Arg "dest1") 6 7 16;
                                      F (Arg "dest2") 8 7 16; F (Arg "inv1") 10 1 1; F (Arg "inv2") 10 0 1].
Definition positiontoelement := Spec 10 [op0; F (Arg "xfer") 2 7 16; F (Arg "dest") 4 7 16; F (Arg "invert") 8 0 1].
Definition initelementstatus := Spec 6 [op0].
Definition initelementstatusrange := Spec 10 [op0; F (Arg "fast") 1 1 1; F (Arg "rng") 1 0 1; F (Arg "xfer") 2 7 16; F (Arg "elements") 6 7 16].
Definition opencloseie := Spec 6 [op0; F (Arg "xfer") 2 7 16; F (Arg "acode") 4 4 5].
Definition readelementstatus := Spec 12 [op0; F (Arg "voltag") 1 4 1; F (Arg "element_type") 1 3 4; F (Arg "start") 2 7 16;
                                         F (Arg "num") 4 7 16; F (Arg "curdata") 6 1 1; F (Arg "dvcid") 6 0 1; F (Arg "alloclen") 7 7 24].

(* ---- MMC-6 ---- *)
Definition readcd := Spec 12 [op0; F (Arg "est") 1 4 3; F (Arg "dap") 1 1 1; F (Arg "lba") 2 7 32; F (Arg "tl") 6 7 24;
                              F (Arg "mcsb") 9 7 5; F (Arg "c2ei") 9 2 2; F (Arg "scsb") 10 2 3].
Definition readdiscinfo := Spec 10 [op0; F (Arg "data_type") 1 2 3; F (Arg "alloc_len") 7 7 16].

(* ---- SAT-3 ---- *)
Definition ata_common := [F (Arg "protocal") 1 4 4; F (Arg "off_line") 2 7 2; F (Arg "ck_cond") 2 5 1; F (Arg "t_type") 2 4 1;
                          F (Arg "t_dir") 2 3 1; F (Arg "byte_block") 2 2 1; F (Arg "t_length") 2 1 2].
Definition ata12 := Spec 12 (op0 :: ata_common ++ [F (Arg "fetures") 3 7 8; F (Arg "count") 4 7 8;
                             F (Fn "ATAPassThrough12.scsi_to_ata_lba_convert" "lba") 5 7 24;
                             F (Arg "device") 8 7 8; F (Arg "command") 9 7 8; F (Arg "control") 11 7 8]).
Definition ata16 := Spec 16 (op0 :: F (Arg "extend") 1 0 1 :: ata_common ++ [F (Arg "fetures") 3 7 16; F (Arg "count") 5 7 16;
                             F (Fn "ATAPassThrough16.scsi_to_ata_lba_convert" "lba") 7 7 48;
                             F (Arg "device") 13 7 8; F (Arg "command") 14 7 8; F (Arg "control") 15 7 8]).

Definition cdb_specs : list (string * cdb_spec) := [
  ("scsi_cdb_atapassthrough12.ATAPassThrough12", ata12);
  ("scsi_cdb_atapassthrough16.ATAPassThrough16", ata16);
  ("scsi_cdb_exchangemedium.ExchangeMedium", exchangemedium);
  ("scsi_cdb_extended_copy_spc4.ExtendedCopy", xcopy_lid1);
  ("scsi_cdb_extended_copy_spc5.ExtendedCopy", xcopy_lid4);
  ("scsi_cdb_getlbastatus.GetLBAStatus", getlbastatus);
  ("scsi_cdb_initelementstatus.InitializeElementStatus", initelementstatus);
  ("scsi_cdb_initelementstatuswithrange.InitializeElementStatusWithRange", initelementstatusrange);
  ("scsi_cdb_inquiry.Inquiry", inquiry);
  ("scsi_cdb_modesense10.ModeSense10", modesense10);
  ("scsi_cdb_modesense10.ModeSelect10", modeselect10);
  ("scsi_cdb_modesense6.ModeSense6", modesense6);
  ("scsi_cdb_modesense6.ModeSelect6", modeselect6);
  ("scsi_cdb_movemedium.MoveMedium", movemedium);
  ("scsi_cdb_openclose_exportimport_element.OpenCloseImportExportElement", opencloseie);
  ("scsi_cdb_persistentreservein.PersistentReserveIn", prin);
  ("scsi_cdb_persistentreservein.PersistentReserveInReadKeys", prin_sa "READ_KEYS");
  ("scsi_cdb_persistentreservein.PersistentReserveInReadReservation", prin_sa "READ_RESERVATION");
  ("scsi_cdb_persistentreservein.PersistentReserveInReportCapabilities", prin_sa "REPORT_CAPABILITIES");
  ("scsi_cdb_persistentreservein.PersistentReserveInReadFullStatus", prin_sa "READ_FULL_STATUS");
  ("scsi_cdb_persistentreserveout.PersistentReserveOut", prout);
  ("scsi_cdb_positiontoelement.PositionToElement", positiontoelement);
  ("scsi_cdb_preventallow_mediumremoval.PreventAllowMediumRemoval", preventallow);
  ("scsi_cdb_read10.Read10", read10);
  ("scsi_cdb_read12.Read12", read12);
  ("scsi_cdb_read16.Read16", read16);
  ("scsi_cdb_readcapacity10.ReadCapacity10", readcapacity10);
  ("scsi_cdb_readcapacity16.ReadCapacity16", readcapacity16);
  ("scsi_cdb_readcd.ReadCd", readcd);
  ("scsi_cdb_readdiscinformation.ReadDiscInformation", readdiscinfo);
  ("scsi_cdb_readelementstatus.ReadElementStatus", readelementstatus);
  ("scsi_cdb_report_luns.ReportLuns", reportluns);
  ("scsi_cdb_report_priority.ReportPriority", reportpriority);
  ("scsi_cdb_report_target_port_groups.ReportTargetPortGroups", rtpg);
  ("scsi_cdb_synchronize_cache10.SynchronizeCache10", synccache10);
  ("scsi_cdb_synchronize_cache16.SynchronizeCache16", synccache16);
  ("scsi_cdb_testunitready.TestUnitReady", testunitready);
  ("scsi_cdb_write10.Write10", write10);
  ("scsi_cdb_write12.Write12", write12);
  ("scsi_cdb_write16.Write16", write16);
  ("scsi_cdb_writesame10.WriteSame10", writesame10);
  ("scsi_cdb_writesame16.WriteSame16", writesame16)
].

(* SAT-3: where the 48 (resp. 24) LBA bits go.  Byte k of the CDB's LBA area, most significant first,
   carries LBA(8j+7 : 8j) for j = sat_lba16_order[k]:
   ATA PASS-THROUGH(16) bytes 7..12 = LBA(31:24) LBA(7:0) LBA(39:32) LBA(15:8) LBA(47:40) LBA(23:16)
   ATA PASS-THROUGH(12) bytes 5..7  = LBA(7:0) LBA(15:8) LBA(23:16) *)
Definition sat_lba16_order : list N := [3; 0; 4; 1; 5; 2].
Definition sat_lba12_order : list N := [0; 1; 2].

(* ------------------------------------------------------------------------------------------------
   Data phases (C03): how long the data-in buffer must be and what the data-out buffer is, per the
   standards: ALLOCATION LENGTH; TRANSFER LENGTH x block size; the caller's write data; the
   parameter list whose length the CDB announces; none. *)
Inductive xlen := XZero | XArg (x : string) | XMul (x y : string) | XMulK (x : string) (k : N).
Inductive xout :=
| OZeros (l : xlen)                   (* a zero buffer of that length (no data-out phase when the length is 0) *)
| OCaller (x : string)                (* the caller's data, as given *)
| OCallerUnless (flag x : string)     (* empty when the flag is set (NDOB), else the caller's data *)
| OParamList                          (* the parameter list composed by the library; PARAMETER LIST LENGTH = its length *)
| OAta.                               (* SAT rules, see ata_* below *)
Inductive xin := IZeros (l : xlen) | IAta.

Definition no_data := (OZeros XZero, IZeros XZero).
Definition in_alloc (x : string) := (OZeros XZero, IZeros (XArg x)).

Definition xfer_specs : list (string * (xout * xin)) := [
  ("scsi_cdb_atapassthrough12.ATAPassThrough12", (OAta, IAta));
  ("scsi_cdb_atapassthrough16.ATAPassThrough16", (OAta, IAta));
  ("scsi_cdb_exchangemedium.ExchangeMedium", no_data);
  ("scsi_cdb_extended_copy_spc4.ExtendedCopy", (OParamList, IZeros XZero));
  ("scsi_cdb_extended_copy_spc5.ExtendedCopy", (OParamList, IZeros XZero));
  ("scsi_cdb_getlbastatus.GetLBAStatus", in_alloc "alloclen");
  ("scsi_cdb_initelementstatus.InitializeElementStatus", no_data);
  ("scsi_cdb_initelementstatuswithrange.InitializeElementStatusWithRange", no_data);
  ("scsi_cdb_inquiry.Inquiry", in_alloc "alloclen");
  ("scsi_cdb_modesense10.ModeSense10", in_alloc "alloclen");
  ("scsi_cdb_modesense10.ModeSelect10", (OParamList, IZeros XZero));
  ("scsi_cdb_modesense6.ModeSense6", in_alloc "alloclen");
  ("scsi_cdb_modesense6.ModeSelect6", (OParamList, IZeros XZero));
  ("scsi_cdb_movemedium.MoveMedium", no_data);
  ("scsi_cdb_openclose_exportimport_element.OpenCloseImportExportElement", no_data);
  ("scsi_cdb_persistentreservein.PersistentReserveIn", in_alloc "alloclen");
  ("scsi_cdb_persistentreservein.PersistentReserveInReadKeys", in_alloc "alloclen");
  ("scsi_cdb_persistentreservein.PersistentReserveInReadReservation", in_alloc "alloclen");
  ("scsi_cdb_persistentreservein.PersistentReserveInReportCapabilities", in_alloc "alloclen");
  ("scsi_cdb_persistentreservein.PersistentReserveInReadFullStatus", in_alloc "alloclen");
  ("scsi_cdb_persistentreserveout.PersistentReserveOut", (OParamList, IZeros XZero));
  ("scsi_cdb_positiontoelement.PositionToElement", no_data);
  ("scsi_cdb_preventallow_mediumremoval.PreventAllowMediumRemoval", no_data);
  ("scsi_cdb_read10.Read10", (OZeros XZero, IZeros (XMul "blocksize" "tl")));
  ("scsi_cdb_read12.Read12", (OZeros XZero, IZeros (XMul "blocksize" "tl")));
  ("scsi_cdb_read16.Read16", (OZeros XZero, IZeros (XMul "blocksize" "tl")));
  (* READ CAPACITY(10) has no allocation length: the device returns 8 bytes; the parameter defaults to 8 *)
  ("scsi_cdb_readcapacity10.ReadCapacity10", in_alloc "alloclen");
  ("scsi_cdb_readcapacity16.ReadCapacity16", in_alloc "alloclen");
  (* READ CD: the sector size depends on the selected fields and, for EXPECTED SECTOR TYPE 0, on the medium;
     the library reserves 3072 bytes per sector (>= 2352 + 294 + 96 + sync/headers): read as sufficiency *)
  ("scsi_cdb_readcd.ReadCd", (OZeros XZero, IZeros (XMulK "tl" 3072)));
  ("scsi_cdb_readdiscinformation.ReadDiscInformation", in_alloc "alloc_len");
  ("scsi_cdb_readelementstatus.ReadElementStatus", in_alloc "alloclen");
  ("scsi_cdb_report_luns.ReportLuns", in_alloc "alloclen");
  ("scsi_cdb_report_priority.ReportPriority", in_alloc "alloclen");
  ("scsi_cdb_report_target_port_groups.ReportTargetPortGroups", in_alloc "alloclen");
  ("scsi_cdb_synchronize_cache10.SynchronizeCache10", no_data);
  ("scsi_cdb_synchronize_cache16.SynchronizeCache16", no_data);
  ("scsi_cdb_testunitready.TestUnitReady", no_data);
  ("scsi_cdb_write10.Write10", (OCaller "data", IZeros XZero));
  ("scsi_cdb_write12.Write12", (OCaller "data", IZeros XZero));
  ("scsi_cdb_write16.Write16", (OCaller "data", IZeros XZero));
  ("scsi_cdb_writesame10.WriteSame10", (OCaller "data", IZeros XZero));
  ("scsi_cdb_writesame16.WriteSame16", (OCallerUnless "ndob" "data", IZeros XZero))
].
Definition readcapacity10_default_alloclen : N := 8.

(* SAT-3 transfer rules for ATA PASS-THROUGH: T_LENGTH selects where the count is (0 none, 1 FEATURES,
   2 COUNT (sector count), 3 the TPSIU / caller-supplied), BYT_BLOK/T_TYPE select the unit (bytes,
   512-byte blocks, logical-sector blocks), T_DIR the direction (0 to the device, 1 from the device). *)
Definition ata_unit (byt_blok t_type t_length blocksize : N) : N :=
  if t_length =? 0 then 0 else
  if byt_blok =? 0 then 1 else
  if t_type =? 0 then 512 else blocksize.
Definition ata_count (t_length fetures count : N) (extra_tl : option N) : N :=
  match t_length with 1 => fetures | 2 => count | 3 => match extra_tl with Some n => n | None => 0 end | _ => 0 end.

(* ------------------------------------------------------------------------------------------------
   Refusals (C17): the classes that transfer logical blocks need a block size and must refuse 0. *)
Definition needs_blocksize : list string := [
  "scsi_cdb_read10.Read10"; "scsi_cdb_read12.Read12"; "scsi_cdb_read16.Read16";
  "scsi_cdb_write10.Write10"; "scsi_cdb_write12.Write12"; "scsi_cdb_write16.Write16";
  "scsi_cdb_writesame10.WriteSame10"].
(* WRITE SAME(16): unless NDOB is set (no data-out buffer at all) *)
Definition needs_blocksize_unless : list (string * string) := [("scsi_cdb_writesame16.WriteSame16", "ndob")].
