(* Spec/SenseFmt.v — SPC-4 4.5: where the sense key, ASC and ASCQ live in fixed (70h/71h) and descriptor
   (72h/73h) format sense data, and a subset of the T10 ASC/ASCQ assignments (asc-num) that I can state
   with certainty.  Written by hand, independent of the library's tables. *)
From Coq Require Import String NArith List.
Import ListNotations.
Open Scope string_scope.
Open Scope N_scope.

(* (response codes, byte of SENSE KEY (low nibble), byte of ASC, byte of ASCQ) *)
Definition sense_positions : list (list N * N * N * N) :=
  [([112; 113], 2, 12, 13);        (* 70h current / 71h deferred, fixed format *)
   ([114; 115], 1, 2, 3)].         (* 72h current / 73h deferred, descriptor format *)

Definition t10_asc_subset : list (N * string) := [
  (0 * 256 + 0, "NO ADDITIONAL SENSE INFORMATION");
  (0 * 256 + 1, "FILEMARK DETECTED");
  (0 * 256 + 2, "END-OF-PARTITION/MEDIUM DETECTED");
  (0 * 256 + 5, "END-OF-DATA DETECTED");
  (0 * 256 + 6, "I/O PROCESS TERMINATED");
  (2 * 256 + 0, "NO SEEK COMPLETE");
  (3 * 256 + 0, "PERIPHERAL DEVICE WRITE FAULT");
  (4 * 256 + 0, "LOGICAL UNIT NOT READY, CAUSE NOT REPORTABLE");
  (4 * 256 + 1, "LOGICAL UNIT IS IN PROCESS OF BECOMING READY");
  (4 * 256 + 2, "LOGICAL UNIT NOT READY, INITIALIZING COMMAND REQUIRED");
  (4 * 256 + 3, "LOGICAL UNIT NOT READY, MANUAL INTERVENTION REQUIRED");
  (4 * 256 + 4, "LOGICAL UNIT NOT READY, FORMAT IN PROGRESS");
  (8 * 256 + 0, "LOGICAL UNIT COMMUNICATION FAILURE");
  (17 * 256 + 0, "UNRECOVERED READ ERROR");
  (26 * 256 + 0, "PARAMETER LIST LENGTH ERROR");
  (32 * 256 + 0, "INVALID COMMAND OPERATION CODE");
  (33 * 256 + 0, "LOGICAL BLOCK ADDRESS OUT OF RANGE");
  (36 * 256 + 0, "INVALID FIELD IN CDB");
  (37 * 256 + 0, "LOGICAL UNIT NOT SUPPORTED");
  (38 * 256 + 0, "INVALID FIELD IN PARAMETER LIST");
  (39 * 256 + 0, "WRITE PROTECTED");
  (40 * 256 + 0, "NOT READY TO READY CHANGE, MEDIUM MAY HAVE CHANGED");
  (41 * 256 + 0, "POWER ON, RESET, OR BUS DEVICE RESET OCCURRED");
  (42 * 256 + 1, "MODE PARAMETERS CHANGED");
  (58 * 256 + 0, "MEDIUM NOT PRESENT");
  (63 * 256 + 14, "REPORTED LUNS DATA HAS CHANGED");
  (68 * 256 + 0, "INTERNAL TARGET FAILURE");
  (83 * 256 + 2, "MEDIUM REMOVAL PREVENTED");
  (0 * 256 + 29, "ATA PASS THROUGH INFORMATION AVAILABLE");
  (4 * 256 + 7, "LOGICAL UNIT NOT READY, OPERATION IN PROGRESS");
  (12 * 256 + 0, "WRITE ERROR");
  (21 * 256 + 0, "RANDOM POSITIONING ERROR");
  (49 * 256 + 0, "MEDIUM FORMAT CORRUPTED");
  (62 * 256 + 0, "LOGICAL UNIT HAS NOT SELF-CONFIGURED YET");
  (64 * 256 + 0, "RAM FAILURE (SHOULD USE 40 NN)");          (* 40h/00h is assigned; 40h/80h..FFh is the parametric family *)
  (67 * 256 + 0, "MESSAGE ERROR");
  (69 * 256 + 0, "SELECT OR RESELECT FAILURE");
  (71 * 256 + 0, "SCSI PARITY ERROR");
  (73 * 256 + 0, "INVALID MESSAGE ERROR");
  (78 * 256 + 0, "OVERLAPPED COMMANDS ATTEMPTED");
  (93 * 256 + 0, "FAILURE PREDICTION THRESHOLD EXCEEDED");
  (93 * 256 + 255, "FAILURE PREDICTION THRESHOLD EXCEEDED (FALSE)")   (* assigned although the qualifier is in the vendor specific range *)
].

(* sense keys, SPC-4 table 49 (the names the standard uses, upper case; compared case-insensitively) *)
Definition spc_sense_keys : list (N * string) :=
  [(0, "NO SENSE"); (1, "RECOVERED ERROR"); (2, "NOT READY"); (3, "MEDIUM ERROR"); (4, "HARDWARE ERROR");
   (5, "ILLEGAL REQUEST"); (6, "UNIT ATTENTION"); (7, "DATA PROTECT"); (8, "BLANK CHECK"); (9, "VENDOR SPECIFIC");
   (10, "COPY ABORTED"); (11, "ABORTED COMMAND"); (13, "VOLUME OVERFLOW"); (14, "MISCOMPARE"); (15, "COMPLETED")].
