(* Spec/SAM.v — SAM-5 facts, written from the standard (independent of the library).
   CDB length by operation-code group (SAM-5 5.2, SPC-4 4.2.5.1):
     group 0 (00h-1Fh) 6 bytes; groups 1,2 (20h-5Fh) 10 bytes; group 3 (60h-7Fh) reserved /
     variable length (7Eh, 7Fh); group 4 (80h-9Fh) 16 bytes; group 5 (A0h-BFh) 12 bytes;
     groups 6,7 (C0h-FFh) vendor specific.
   Status codes (SAM-5 table 40). *)
From Coq Require Import String NArith List.
Import ListNotations.
Open Scope N_scope.

Definition group_code (op : N) : N := N.shiftr op 5.

Definition cdb_len_of_opcode (op : N) : option nat :=
  match group_code op with
  | 0 => Some 6%nat
  | 1 | 2 => Some 10%nat
  | 4 => Some 16%nat
  | 5 => Some 12%nat
  | _ => None
  end.

Open Scope string_scope.
Definition sam_status : list (string * N) :=
  [("GOOD", 0); ("CHECK_CONDITION", 2); ("CONDITIONS_MET", 4); ("BUSY", 8);
   ("RESERVATION_CONFLICT", 24); ("TASK_SET_FULL", 40); ("ACA_ACTIVE", 48); ("TASK_ABORTED", 64)].
(* library pseudo-status, not a SAM code: exempt from the comparison *)
Definition pseudo_status : list string := ["SGIO_ERROR"].

(* the error each non-GOOD status must surface as (named after the status) *)
From PS Require Import Base.Bytes Base.Result.
Inductive status_error := ECheckCondition | EOther (e : exn).
Definition sam_status_error : list (N * status_error) :=
  [(2, ECheckCondition); (4, EOther ConditionsMet); (8, EOther BusyStatus); (24, EOther ReservationConflict);
   (40, EOther TaskSetFull); (48, EOther ACAActive); (64, EOther TaskAborted)]%N.

(* SPC-4 table 140 peripheral device types -> the command standard that governs them *)
Open Scope string_scope.
Definition cmdset_of_type (t : N) : option string :=
  match t with
  | 0 | 4 | 7 => Some "sbc"     (* direct access, write-once, optical memory block devices *)
  | 1 => Some "ssc"             (* sequential access *)
  | 5 => Some "mmc"             (* CD/DVD *)
  | 8 => Some "smc"             (* media changer *)
  | _ => None                   (* processor and everything else: any set that offers the primary commands *)
  end%N.
Definition primary_commands : list (string * N) := [("INQUIRY", 18); ("TEST_UNIT_READY", 0); ("REPORT_LUNS", 160)]%N.
